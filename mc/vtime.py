"""Virtual stand-in for the `time` module (and `asyncio.sleep`) that a harness installs as a module attribute of the code
under test (e.g. basana.core.token_bucket.time).

It is a full proxy of the real module: every attribute the code might legitimately use is there. All clock functions
(time, time_ns, monotonic, monotonic_ns, perf_counter, perf_counter_ns) read the SAME virtual clock, so a
behaviour-preserving refactoring from time.time() to time.monotonic() / time.time_ns() neither breaks the harness nor
raises a false alarm. `sleep` (the blocking one) advances the virtual clock instead of blocking.
"""
import time as _real_time


class VirtualTime:
    def __init__(self, now_fn, advance_fn=None):
        """now_fn() -> virtual seconds since the epoch (float). advance_fn(d): called by sleep(d), if given."""
        self._now = now_fn
        self._advance = advance_fn

    def time(self):
        return self._now()

    def time_ns(self):
        return int(round(self._now() * 1e9))

    def monotonic(self):
        return self._now()

    def monotonic_ns(self):
        return int(round(self._now() * 1e9))

    def perf_counter(self):
        return self._now()

    def perf_counter_ns(self):
        return int(round(self._now() * 1e9))

    def sleep(self, d):
        if self._advance is not None:
            self._advance(d)

    def __getattr__(self, name):  # everything else (gmtime, strftime, struct_time, ...) is the real thing
        return getattr(_real_time, name)


class ModuleProxy:
    """Proxy of a real module with some attributes overridden (e.g. asyncio with a virtual sleep): code that uses other
    attributes of the module, or that stops using the overridden one, keeps working."""

    def __init__(self, real, **overrides):
        self.__dict__["_real"] = real
        self.__dict__.update(overrides)

    def __getattr__(self, name):
        return getattr(self.__dict__["_real"], name)

"""Runner shared by all checks: shards scenarios over worker processes, aggregates coverage, triages violations against
known_findings.json, writes evidence and replay files (DESIGN.md 2.6).

A check module (checks/cXX.py) provides:

  PROPERTY   = "C13"
  RULE       = "how cases are enumerated and what makes one distinct / non-trivial"
  ASSUMPTIONS = [...]
  scenarios(tier, seed) -> list of picklable scenario descriptors (the whole finite scenario space of that tier)
  run_scenario(sc, tier) -> Result            (explores one scenario exhaustively within the tier's bounds)
  replay(rep) -> list of violation messages   (re-runs exactly one recorded execution, printing its trace)

Exit codes: 0 held, 1 violation (with VIOLATION line), 2 harness error.
"""
import collections
import gc
import hashlib
import importlib
import json
import multiprocessing
import os
import sys
import time
import traceback

VERIF = os.path.dirname(os.path.dirname(os.path.abspath(__file__)))
TORN_DOWN = False


def h64(obj):
    """Stable 64-bit hash of a canonical (repr-able) object; independent of PYTHONHASHSEED."""
    return int.from_bytes(hashlib.blake2b(repr(obj).encode(), digest_size=8).digest(), "big")


class Result:
    """What exploring one scenario covered."""

    def __init__(self):
        self.executions = 0          # executions of the real implementation
        self.states = set()          # hashes of canonical driver-visible states met at choice points / after transitions
        self.transitions = 0         # loop segments between choice points / model transitions executed
        self.nontrivial = set()      # hashes of distinct non-trivial observations (rule given by the check)
        self.outcomes = collections.Counter()
        self.violations = []         # dicts: signature, message, replay (JSON-able), size
        self.samples = []
        self.validated = 0           # executions re-run / cross-checked through a second path with identical observation
        self.caps = {}               # name -> description of any cap that was hit
        self.union_keys = False      # True: state / non-trivial hashes may repeat across scenarios (shards of one BFS)
        self.extra = collections.Counter()

    def violation(self, signature, message, replay, size=0):
        self.violations.append(dict(signature=signature, message=message, replay=replay, size=size))

    def pack(self):
        # keep only the smallest violation per signature to bound the pickling cost
        best = {}
        for v in self.violations:
            b = best.get(v["signature"])
            if b is None or (v["size"], json.dumps(v["replay"], sort_keys=True, default=str)) < \
                    (b["size"], json.dumps(b["replay"], sort_keys=True, default=str)):
                best[v["signature"]] = v
        counts = collections.Counter(v["signature"] for v in self.violations)
        # states and non-trivial cases are keyed by their scenario, so per-scenario distinct counts add up exactly: only the
        # counts travel to the parent (shipping the sets made the parent's union grow to gigabytes on thorough runs)
        return dict(executions=self.executions, states=len(self.states), transitions=self.transitions,
                    nontrivial=len(self.nontrivial), outcomes=self.outcomes, violations=list(best.values()),
                    state_set=self.states if self.union_keys else None,
                    nontrivial_set=self.nontrivial if self.union_keys else None,
                    vcounts=counts, samples=self.samples[:2], validated=self.validated, caps=self.caps,
                    extra=self.extra)


def _worker(args):
    modname, tier, sc = args
    try:
        mod = importlib.import_module(modname)
        res = mod.run_scenario(sc, tier)
        packed = res.pack()
        del res
        gc.collect()
        return ("ok", packed)
    except BaseException as e:  # harness errors must surface, not hang the pool
        return ("err", f"scenario {sc!r}: {type(e).__name__}: {e}\n{traceback.format_exc()}")


def _init_worker():
    from mc import repo, vloop
    repo.bind()
    vloop.install_warning_recorder()


def load_known(prop):
    path = os.path.join(VERIF, "known_findings.json")
    if not os.path.exists(path):
        return {}
    with open(path) as f:
        data = json.load(f)
    return {k["signature"]: k for k in data.get("known", []) if k["property"] == prop}


def run_check(modname, tier, seed, jobs=None):
    t0 = time.time()
    mod = importlib.import_module(modname)
    prop = mod.PROPERTY
    scs = mod.scenarios(tier, seed)
    jobs = jobs or int(os.environ.get("VERIF_JOBS", "16"))
    # wall budget: never silently run away; when it is hit the run stops submitting scenarios and reports the cap
    budget = float(os.environ.get("VERIF_BUDGET_S", "0")) or getattr(mod, "BUDGET_S", {}).get(tier) or \
        (1800.0 if tier == "thorough" else 600.0)
    agg = dict(executions=0, states=0, transitions=0, validated=0)
    nontrivial = 0
    union_states = set()
    union_nontrivial = set()
    outcomes = collections.Counter()
    extra = collections.Counter()
    vcounts = collections.Counter()
    best = {}
    samples = []
    caps = {}
    errors = []
    done = 0
    work = [(modname, tier, sc) for sc in scs]

    def consume(status, payload):
        nonlocal nontrivial, done
        if status == "err":
            errors.append(payload)
            return False
        done += 1
        for k in agg:
            if k == "states" and payload["state_set"] is not None:
                continue
            agg[k] += payload[k]
        if payload["state_set"] is not None:
            # shards of one search: the same state can be reached in several shards, count it once
            n0 = len(union_states)
            union_states.update(payload["state_set"])
            agg["states"] += len(union_states) - n0
            n0 = len(union_nontrivial)
            union_nontrivial.update(payload["nontrivial_set"])
            nontrivial += len(union_nontrivial) - n0
        else:
            nontrivial += payload["nontrivial"]
        outcomes.update(payload["outcomes"])
        extra.update(payload["extra"])
        vcounts.update(payload["vcounts"])
        caps.update(payload["caps"])
        if len(samples) < 3 and payload["samples"]:
            samples.append(payload["samples"][0])
        for v in payload["violations"]:
            b = best.get(v["signature"])
            if b is None or v["size"] < b["size"]:
                best[v["signature"]] = v
        return True

    if jobs == 1:
        _init_worker()
        for w in work:
            if not consume(*_worker(w)):
                break
    else:
        import concurrent.futures as cf
        ctx = multiprocessing.get_context("fork")
        # a sliding window of submitted scenarios; a worker that dies (e.g. killed for memory) breaks the pool loudly
        # instead of hanging the run
        ex = cf.ProcessPoolExecutor(max_workers=jobs, mp_context=ctx, initializer=_init_worker)
        try:
            pending = set()
            it = iter(work)
            stop = False
            while True:
                while not stop and len(pending) < jobs * 4:
                    w = next(it, None)
                    if w is None:
                        break
                    pending.add(ex.submit(_worker, w))
                if not pending:
                    break
                finished, pending = cf.wait(pending, return_when=cf.FIRST_COMPLETED)
                for f in finished:
                    try:
                        status, payload = f.result()
                    except Exception as e:  # BrokenProcessPool etc.
                        status, payload = "err", f"worker pool failure: {type(e).__name__}: {e}"
                    if not consume(status, payload):
                        stop = True
                if errors:
                    break
                if best and os.environ.get("VERIF_STOP_ON_VIOLATION") and not stop:
                    # mutant runs only need to know WHETHER the change is reported: stop submitting, say so
                    caps["stopped_on_violation"] = f"stopped submitting after {done}/{len(work)} scenarios (first violation)"
                    stop = True
                if budget and time.time() - t0 > budget and not stop:
                    caps["wall_budget"] = f"stopped submitting after {done}/{len(work)} scenarios ({budget}s budget)"
                    stop = True
        finally:
            procs = list((getattr(ex, "_processes", None) or {}).values())
            global TORN_DOWN
            TORN_DOWN = True  # the CLI leaves through os._exit: the executor's exit hook would trip over the dead workers
            ex.shutdown(wait=False, cancel_futures=True)
            for p in procs:
                try:
                    p.terminate()
                except Exception:
                    pass
    if errors:
        print("HARNESS-ERROR", errors[0], file=sys.stderr)
        return 2

    known = load_known(prop)
    new = []
    os.makedirs(os.path.join(VERIF, "replays", prop), exist_ok=True)
    for sig in sorted(best):
        v = best[sig]
        rep_path = os.path.join(VERIF, "replays", prop, hashlib.sha1(sig.encode()).hexdigest()[:12] + ".json")
        with open(rep_path, "w") as f:
            json.dump(dict(property=prop, signature=sig, message=v["message"], replay=v["replay"]), f, indent=1,
                      default=str)
        if sig in known:
            print(f"KNOWN-FINDING: property={prop} {known[sig]['what']} [{sig}; {vcounts[sig]} executions]")
        else:
            new.append((sig, v, rep_path))
    exhaustive = not caps
    wall = time.time() - t0
    coverage = dict(
        states=agg["states"], transitions=agg["transitions"],
        traces_validated_against_impl=agg["validated"],
        samples=samples or [repr(scs[0])],
        evaluations=agg["executions"], distinct_nontrivial=nontrivial, rule=mod.RULE,
        exhaustive=exhaustive, scenarios=done, scenarios_total=len(work),
        outcomes={str(k): n for k, n in sorted(outcomes.items(), key=lambda kv: str(kv[0]))},
        distinct_outcomes=len(outcomes), caps=caps, bounds=getattr(mod, "BOUNDS", {}).get(tier, {}),
        violation_signatures={s: vcounts[s] for s in sorted(vcounts)},
        explanation=getattr(mod, "EXPLANATION", ""),
    )
    coverage.update({k: v for k, v in extra.items()})
    evidence = dict(property_id=prop, tier=tier, seed=seed, level="model_checking", coverage=coverage,
                    assumptions=list(mod.ASSUMPTIONS), wall_s=round(wall, 2), violations=len(new))
    evdir = os.environ.get("VERIF_EVIDENCE_DIR") or os.path.join(VERIF, "evidence")  # mutant runs write elsewhere
    os.makedirs(evdir, exist_ok=True)
    with open(os.path.join(evdir, f"{prop}.json"), "w") as f:
        json.dump(evidence, f, indent=1, default=str)
        f.write("\n")
    print(f"{prop} {tier}: scenarios={done}/{len(work)} executions={agg['executions']} states={agg['states']} "
          f"transitions={agg['transitions']} distinct_nontrivial={nontrivial} outcomes={len(outcomes)} "
          f"exhaustive={exhaustive} wall={wall:.1f}s")
    for sig, v, rep_path in new:
        print(f"  {sig}: {v['message']}")
        print(f"VIOLATION property={prop} replay={rep_path}")
    return 1 if new else 0


def run_replay(modname, path):
    from mc import repo, vloop
    repo.bind()
    vloop.install_warning_recorder()
    mod = importlib.import_module(modname)
    with open(path) as f:
        rep = json.load(f)
    msgs = mod.replay(rep["replay"])
    for m in msgs:
        print("VIOLATION-REPRODUCED:", m)
    if not msgs:
        print("no violation on this tree for the recorded execution")
    return 1 if msgs else 0

"""Runner shared by all checks: shards scenarios over worker processes, aggregates coverage, triages violations against
known_findings.json, writes evidence and replay files (DESIGN.md 2.6).

A check module (checks/cXX.py) provides:

  PROPERTY   = "C13"
  RULE       = "how cases are enumerated and what makes one distinct / non-trivial"
  ASSUMPTIONS = [...]
  scenarios(tier, seed) -> list of picklable scenario descriptors (the whole finite scenario space of that tier)
  run_scenario(sc, tier) -> Result            (explores one scenario exhaustively within the tier's bounds)
  replay(rep) -> list of violation messages   (re-runs exactly one recorded execution, printing its trace)

Exit codes: 0 held, 1 violation (with VIOLATION line), 2 harness error.
"""
import collections
import hashlib
import importlib
import json
import multiprocessing
import os
import sys
import time
import traceback

VERIF = os.path.dirname(os.path.dirname(os.path.abspath(__file__)))


def h64(obj):
    """Stable 64-bit hash of a canonical (repr-able) object; independent of PYTHONHASHSEED."""
    return int.from_bytes(hashlib.blake2b(repr(obj).encode(), digest_size=8).digest(), "big")


class Result:
    """What exploring one scenario covered."""

    def __init__(self):
        self.executions = 0          # executions of the real implementation
        self.states = set()          # hashes of canonical driver-visible states met at choice points / after transitions
        self.transitions = 0         # loop segments between choice points / model transitions executed
        self.nontrivial = set()      # hashes of distinct non-trivial observations (rule given by the check)
        self.outcomes = collections.Counter()
        self.violations = []         # dicts: signature, message, replay (JSON-able), size
        self.samples = []
        self.validated = 0           # executions re-run / cross-checked through a second path with identical observation
        self.caps = {}               # name -> description of any cap that was hit
        self.extra = collections.Counter()

    def violation(self, signature, message, replay, size=0):
        self.violations.append(dict(signature=signature, message=message, replay=replay, size=size))

    def pack(self):
        # keep only the smallest violation per signature to bound the pickling cost
        best = {}
        for v in self.violations:
            b = best.get(v["signature"])
            if b is None or (v["size"], json.dumps(v["replay"], sort_keys=True, default=str)) < \
                    (b["size"], json.dumps(b["replay"], sort_keys=True, default=str)):
                best[v["signature"]] = v
        counts = collections.Counter(v["signature"] for v in self.violations)
        return dict(executions=self.executions, states=len(self.states), transitions=self.transitions,
                    nontrivial=self.nontrivial, outcomes=self.outcomes, violations=list(best.values()),
                    vcounts=counts, samples=self.samples[:2], validated=self.validated, caps=self.caps,
                    extra=self.extra)


def _worker(args):
    modname, tier, sc = args
    try:
        mod = importlib.import_module(modname)
        res = mod.run_scenario(sc, tier)
        return ("ok", res.pack())
    except BaseException as e:  # harness errors must surface, not hang the pool
        return ("err", f"scenario {sc!r}: {type(e).__name__}: {e}\n{traceback.format_exc()}")


def _init_worker():
    from mc import repo, vloop
    repo.bind()
    vloop.install_warning_recorder()


def load_known(prop):
    path = os.path.join(VERIF, "known_findings.json")
    if not os.path.exists(path):
        return {}
    with open(path) as f:
        data = json.load(f)
    return {k["signature"]: k for k in data.get("known", []) if k["property"] == prop}


def run_check(modname, tier, seed, jobs=None):
    t0 = time.time()
    mod = importlib.import_module(modname)
    prop = mod.PROPERTY
    scs = mod.scenarios(tier, seed)
    jobs = jobs or int(os.environ.get("VERIF_JOBS", "16"))
    budget = float(os.environ.get("VERIF_BUDGET_S", "0")) or getattr(mod, "BUDGET_S", {}).get(tier)
    agg = dict(executions=0, states=0, transitions=0, validated=0)
    nontrivial = set()
    outcomes = collections.Counter()
    extra = collections.Counter()
    vcounts = collections.Counter()
    best = {}
    samples = []
    caps = {}
    errors = []
    done = 0
    ctx = multiprocessing.get_context("fork")
    work = [(modname, tier, sc) for sc in scs]
    chunks = 1  # scenarios differ widely in cost: let the pool balance them one by one
    if jobs == 1:
        _init_worker()
        it = map(_worker, work)
        pool = None
    else:
        pool = ctx.Pool(jobs, initializer=_init_worker)
        it = pool.imap_unordered(_worker, work, chunksize=chunks)
    try:
        for status, payload in it:
            if status == "err":
                errors.append(payload)
                break
            done += 1
            for k in agg:
                agg[k] += payload[k]
            nontrivial |= payload["nontrivial"]
            outcomes.update(payload["outcomes"])
            extra.update(payload["extra"])
            vcounts.update(payload["vcounts"])
            caps.update(payload["caps"])
            if len(samples) < 3 and payload["samples"]:
                samples.append(payload["samples"][0])
            for v in payload["violations"]:
                b = best.get(v["signature"])
                if b is None or v["size"] < b["size"]:
                    best[v["signature"]] = v
            if budget and time.time() - t0 > budget:
                caps["wall_budget"] = f"stopped after {done}/{len(work)} scenarios ({budget}s budget)"
                break
    finally:
        if pool is not None:
            pool.terminate()
            pool.join()
    if errors:
        print("HARNESS-ERROR", errors[0], file=sys.stderr)
        return 2

    known = load_known(prop)
    new = []
    os.makedirs(os.path.join(VERIF, "replays", prop), exist_ok=True)
    for sig in sorted(best):
        v = best[sig]
        rep_path = os.path.join(VERIF, "replays", prop, hashlib.sha1(sig.encode()).hexdigest()[:12] + ".json")
        with open(rep_path, "w") as f:
            json.dump(dict(property=prop, signature=sig, message=v["message"], replay=v["replay"]), f, indent=1,
                      default=str)
        if sig in known:
            print(f"KNOWN-FINDING: property={prop} {known[sig]['what']} [{sig}; {vcounts[sig]} executions]")
        else:
            new.append((sig, v, rep_path))
    exhaustive = not caps
    wall = time.time() - t0
    coverage = dict(
        states=agg["states"], transitions=agg["transitions"],
        traces_validated_against_impl=agg["validated"],
        samples=samples or [repr(scs[0])],
        evaluations=agg["executions"], distinct_nontrivial=len(nontrivial), rule=mod.RULE,
        exhaustive=exhaustive, scenarios=done, scenarios_total=len(work),
        outcomes={str(k): n for k, n in sorted(outcomes.items(), key=lambda kv: str(kv[0]))},
        distinct_outcomes=len(outcomes), caps=caps, bounds=getattr(mod, "BOUNDS", {}).get(tier, {}),
        violation_signatures={s: vcounts[s] for s in sorted(vcounts)},
        explanation=getattr(mod, "EXPLANATION", ""),
    )
    coverage.update({k: v for k, v in extra.items()})
    evidence = dict(property_id=prop, tier=tier, seed=seed, level="model_checking", coverage=coverage,
                    assumptions=list(mod.ASSUMPTIONS), wall_s=round(wall, 2), violations=len(new))
    evdir = os.environ.get("VERIF_EVIDENCE_DIR") or os.path.join(VERIF, "evidence")  # mutant runs write elsewhere
    os.makedirs(evdir, exist_ok=True)
    with open(os.path.join(evdir, f"{prop}.json"), "w") as f:
        json.dump(evidence, f, indent=1, default=str)
        f.write("\n")
    print(f"{prop} {tier}: scenarios={done}/{len(work)} executions={agg['executions']} states={agg['states']} "
          f"transitions={agg['transitions']} distinct_nontrivial={len(nontrivial)} outcomes={len(outcomes)} "
          f"exhaustive={exhaustive} wall={wall:.1f}s")
    for sig, v, rep_path in new:
        print(f"  {sig}: {v['message']}")
        print(f"VIOLATION property={prop} replay={rep_path}")
    return 1 if new else 0


def run_replay(modname, path):
    from mc import repo, vloop
    repo.bind()
    vloop.install_warning_recorder()
    mod = importlib.import_module(modname)
    with open(path) as f:
        rep = json.load(f)
    msgs = mod.replay(rep["replay"])
    for m in msgs:
        print("VIOLATION-REPRODUCED:", m)
    if not msgs:
        print("no violation on this tree for the recorded execution")
    return 1 if msgs else 0

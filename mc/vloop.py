"""Virtual-time asyncio event loop, driven step by step by the harness (DESIGN.md 2.1).

* time() is a counter: nothing ever sleeps for real; when no callback is ready the clock jumps to the next timer.
* The ready queue is popped in FIFO order, exactly like CPython's BaseEventLoop._run_once does.
* "nothing ready, no timer, main not done" is Deadlock; passing the horizon is Horizon; too many steps is StepCap; too
  many steps without the clock moving is Livelock. None of them is silently swallowed.
* Exceptions that asyncio would report through the loop exception handler (e.g. "Task exception was never retrieved")
  and "coroutine ... was never awaited" warnings are recorded in .errors / .warnings.
* Tasks are tracked through a task factory (never asyncio.all_tasks(), which walks tasks of earlier executions).
"""
import asyncio
import gc
import heapq
import os
import signal
import threading
import warnings
from asyncio import base_events, events


class Deadlock(Exception):
    pass


class Horizon(Exception):
    pass


class StepCap(Exception):
    pass


class Livelock(Exception):
    pass


class _HangInterrupt(KeyboardInterrupt):
    """Raised by the wall-clock watchdog INSIDE whatever is running. A KeyboardInterrupt subclass because asyncio lets only
    those (and SystemExit) propagate out of a task step / a callback instead of storing them in the task."""


WATCHDOG_S = float(os.environ.get("VERIF_EXEC_WATCHDOG_S", "20"))
_hangs = [0]  # once an execution of this process hung, later ones get a short fuse (a scenario may hold hundreds of them)


def _on_alarm(signum, frame):
    raise _HangInterrupt()


_recorded_warnings = []
_orig_showwarning = warnings.showwarning


def _showwarning(message, category, filename, lineno, file=None, line=None):
    _recorded_warnings.append((category.__name__, str(message)))


def install_warning_recorder():
    warnings.showwarning = _showwarning
    warnings.simplefilter("always", RuntimeWarning)


class VLoop(base_events.BaseEventLoop):
    _shutdowns = 0

    def __init__(self):
        super().__init__()
        self._vtime = 0.0
        self.steps = 0
        self.errors = []  # contexts passed to the loop's exception handler
        self.warnings = []
        self.set_exception_handler(lambda loop, ctx: self.errors.append(ctx))
        self.tasks = []

        def factory(loop, coro, **kw):
            t = asyncio.Task(coro, loop=loop, **kw)
            self.tasks.append(t)
            return t
        self.set_task_factory(factory)
        self.progress = 0  # harness may bump this to tell the livelock detector that something useful happened
        del _recorded_warnings[:]

    def time(self):
        return self._vtime

    def _process_events(self, event_list):
        pass

    def _write_to_self(self):
        pass

    def add_signal_handler(self, sig, callback, *args):  # basana's run() installs these unless stop_signals=[]
        pass

    def run(self, main_coro, *, horizon=None, max_steps=200000, on_step=None, on_quiescent=None,
            livelock_steps=20000):
        """Runs main_coro to completion and returns its task.

        on_step(loop) is called before every callback. on_quiescent(loop) is called when nothing is ready (timers may be
        pending): it returns True if it made something ready (e.g. released a gate).
        """
        events._set_running_loop(self)
        same_time_steps = 0
        last_time = self._vtime
        last_progress = self.progress
        # One execution takes milliseconds. Code under test that spins WITHOUT ever yielding to the loop (a `while` loop that
        # makes no progress) cannot be stopped by step counting: a wall-clock alarm interrupts it and the execution is
        # reported as a livelock, like the yielding kind.
        armed = False
        if WATCHDOG_S > 0 and threading.current_thread() is threading.main_thread():
            prev_handler = signal.signal(signal.SIGALRM, _on_alarm)
            signal.setitimer(signal.ITIMER_REAL, WATCHDOG_S if not _hangs[0] else min(WATCHDOG_S, 3.0))
            armed = True
        try:
            task = self.create_task(main_coro)
            while not task.done():
                if self._ready:
                    if on_step:
                        on_step(self)
                    h = self._ready.popleft()
                    if not h._cancelled:
                        h._run()
                    h = None
                    self.steps += 1
                    if self.steps > max_steps:
                        raise StepCap()
                    if self._vtime == last_time and self.progress == last_progress:
                        same_time_steps += 1
                        if same_time_steps > livelock_steps:
                            raise Livelock()
                    else:
                        same_time_steps = 0
                        last_time = self._vtime
                        last_progress = self.progress
                    continue
                while self._scheduled and self._scheduled[0]._cancelled:
                    t = heapq.heappop(self._scheduled)
                    t._scheduled = False
                if on_quiescent and on_quiescent(self):
                    continue
                if self._scheduled:
                    t = heapq.heappop(self._scheduled)
                    t._scheduled = False
                    if horizon is not None and t._when > horizon:
                        heapq.heappush(self._scheduled, t)
                        t._scheduled = True
                        raise Horizon()
                    self._vtime = max(self._vtime, t._when)
                    self._ready.append(t)
                    continue
                raise Deadlock()
            return task
        except _HangInterrupt:
            self.hung = True
            _hangs[0] += 1
            raise Livelock() from None
        finally:
            if armed:
                signal.setitimer(signal.ITIMER_REAL, 0)
                signal.signal(signal.SIGALRM, prev_handler)
            events._set_running_loop(None)

    def shutdown(self):
        """Cancels leftovers so that nothing leaks into the next execution, then collects recorded warnings."""
        events._set_running_loop(self)
        try:
            for _ in range(5):
                pending = [t for t in self.tasks if not t.done()]
                if not pending and not self._ready:
                    break
                for t in pending:
                    t.cancel()
                n = 0
                while self._ready and n < 10000:
                    h = self._ready.popleft()
                    n += 1
                    if not h._cancelled:
                        h._run()
        finally:
            events._set_running_loop(None)
        self.tasks = []
        self._scheduled.clear()
        # GC-timed "exception never retrieved" / "never awaited" reports become visible now. A full collection every so
        # often: tasks, frames and handles form cycles that survive into the oldest generation, which CPython collects
        # rarely - workers grew by ~10 MB/s on long runs without it.
        VLoop._shutdowns += 1
        gc.collect(1 if VLoop._shutdowns % 500 else 2)
        self.warnings = list(_recorded_warnings)
        del _recorded_warnings[:]
        self.close()

import os
import sys


def main(argv):
    if not argv:
        print(__doc__ or "usage: ./run <ID> quick|thorough | <ID> --replay <file> | selftest")
        return 2
    if argv[0] == "selftest":
        from mc import selftest
        return selftest.main()
    prop = argv[0].upper()
    modname = f"checks.{prop.lower()}"
    from mc import repo, framework
    try:
        repo.bind()
        if len(argv) >= 3 and argv[1] == "--replay":
            return framework.run_replay(modname, argv[2])
        tier = argv[1] if len(argv) > 1 else os.environ.get("VERIF_TIER", "quick")
        if tier not in ("quick", "thorough"):
            print("tier must be quick or thorough")
            return 2
        seed = int(os.environ.get("VERIF_SEED", "0"))
        return framework.run_check(modname, tier, seed)
    except repo.HarnessError as e:
        print("HARNESS-ERROR", e, file=sys.stderr)
        return 2


if __name__ == "__main__":
    rc = main(sys.argv[1:])
    sys.stdout.flush()
    sys.stderr.flush()
    from mc import framework as _fw
    if _fw.TORN_DOWN:
        os._exit(rc or 0)
    sys.exit(rc)

"""Engine self-test run by MANIFEST.setup_cmd: reports a broken sandbox as such (nothing is built)."""
import asyncio
import sys


def main():
    from mc import repo, vloop
    from mc.chooser import Chooser, explore
    repo.bind()
    vloop.install_warning_recorder()
    # 1. chooser enumeration counts on a toy: 3 binary points -> 8 sequences unbounded, 4 within bound 1
    def toy(ch):
        return tuple(ch.choose(2, "x") for _ in range(3))
    assert len(set(r for _, _, r in explore(toy, None))) == 8
    assert len(set(r for _, _, r in explore(toy, 1))) == 4
    # 2. virtual loop determinism and virtual time
    def once():
        loop = vloop.VLoop()
        log = []

        async def w(name, d):
            await asyncio.sleep(d)
            log.append((name, loop.time()))

        async def main():
            await asyncio.gather(w("a", 5), w("b", 1), w("c", 5))
        loop.run(main())
        loop.shutdown()
        return log
    a, b = once(), once()
    assert a == b == [("b", 1.0), ("a", 5.0), ("c", 5.0)], (a, b)
    print("selftest ok: chooser, virtual loop, basana bound to", repo.REPO)
    return 0


if __name__ == "__main__":
    sys.exit(main())

"""Model-checking engines for the basana verification (see /verif/DESIGN.md section 2)."""

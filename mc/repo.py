"""Binds the harness to the *current working tree* of the repository under verification.

Checks import basana from REPO (default /repo, override with env BASANA_REPO for scratch worktrees) and refuse
to run if the imported package lives anywhere else. Nothing is built or cached: the sources are pure Python and
are re-imported by every check process (sys.dont_write_bytecode keeps /repo clean).
"""
import logging
import os
import sys
import warnings

REPO = os.environ.get("BASANA_REPO", "/repo")
GUARD = "BASANA_VERIF"


class HarnessError(Exception):
    """The harness itself is broken (exit code 2), as opposed to the property being violated (exit code 1)."""


def bind():
    sys.dont_write_bytecode = True
    os.environ.setdefault(GUARD, "1")
    if REPO in sys.path:
        sys.path.remove(REPO)
    sys.path.insert(0, REPO)
    warnings.simplefilter("ignore", DeprecationWarning)
    import basana
    where = os.path.realpath(os.path.dirname(basana.__file__))
    if not where.startswith(os.path.realpath(REPO) + os.sep):
        raise HarnessError(f"basana imported from {where}, expected under {REPO}")
    # The library logs handler exceptions etc. through the logging module; the harness observes behaviour directly.
    logging.disable(logging.CRITICAL)
    return basana

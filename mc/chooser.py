"""Stateless, deviation-bounded DFS over the choice sequences of a driver (DESIGN.md 2.2).

A driver calls ch.choose(n, tag) wherever the environment has a choice; choice 0 is the default answer. explore() runs
the driver with a prefix of choices (defaults afterwards) and then branches on every later point whose alternatives fit
in the remaining deviation budget. With bound=None the exploration is exhaustive over all choice sequences (the driver
must then bound its own depth).
"""


class ReplayError(Exception):
    """A recorded choice does not fit the choice point met while replaying: the driver is not deterministic."""


class Chooser:
    def __init__(self, prefix=()):
        self.prefix = list(prefix)
        self.trace = []  # (n, chosen, tag)

    def choose(self, n, tag=""):
        i = len(self.trace)
        if n <= 1:
            c = 0
        elif i < len(self.prefix):
            c = self.prefix[i]
            if not (0 <= c < n):
                raise ReplayError(f"choice {c} out of range {n} at point {i} ({tag})")
        else:
            c = 0
        self.trace.append((n, c, tag))
        return c

    @property
    def choices(self):
        return [c for (_, c, _) in self.trace]


def default_cost(tag, c):
    return 0 if c == 0 else 1


def explore(run_one, bound, cost=default_cost, max_exec=None):
    """Yields (choices, trace, result) for every choice sequence of total cost <= bound (all, if bound is None)."""
    stack = [[]]
    n_exec = 0
    while stack:
        prefix = stack.pop()
        ch = Chooser(prefix)
        res = run_one(ch)
        if len(ch.trace) < len(prefix):
            raise ReplayError(f"prefix of {len(prefix)} choices but the run only met {len(ch.trace)} points")
        n_exec += 1
        yield ch.choices, ch.trace, res
        if max_exec and n_exec >= max_exec:
            return
        spent = 0
        costs = []
        for (n, c, tag) in ch.trace:
            spent += cost(tag, c)
            costs.append(spent)
        for i in range(len(ch.trace) - 1, len(prefix) - 1, -1):
            n, c, tag = ch.trace[i]
            before = costs[i] - cost(tag, c)
            for alt in range(n - 1, 0, -1):
                if bound is None or before + cost(tag, alt) <= bound:
                    stack.append([x for (_, x, _) in ch.trace[:i]] + [alt])

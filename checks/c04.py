"""C04 - execution price and trigger guarantees per order type (DESIGN.md section 3, C04).

Input-shape exhaustive: one order x bar sequences through the real Exchange. Every order type x side x amount x every
assignment of limit / stop to a k-level price grid x EVERY valid (open, high, low, close) on that grid for the first bar
x volumes (none / fractional liquidity / exact / ample) x a second (and third) bar from a subset of shapes and volumes x
liquidity model x precision x fee. Because only the relative order of the prices matters to the branch structure, a
k-level grid with k >= number of prices in play realises all weak orderings.
"""
import itertools
from decimal import Decimal as D

import basana as bs
from basana.backtesting import exchange as ex, fees, liquidity

from mc.framework import Result, h64
from worlds.exch import PAIRS, T, call, SIDE

PROPERTY = "C04"
RULE = ("case = (liquidity model, precision, fee, order type, side, amount, limit, stop, first bar OHLC on the grid, "
        "first volume, second bar shape, second volume[, third bar]); all cases of the product are executed on the real "
        "exchange and every fill (delta of the order info across a bar) is checked. Distinct = distinct cases; "
        "non-trivial = the order traded at least once.")
ASSUMPTIONS = [
    "price grid of 3 levels {90,100,110} (quick) / 5 levels {80..120} (thorough): all weak orderings of O/H/L/C/limit/stop",
    "amounts 1 and 3 units; volumes {0, 10, 12, 1000} units (25% -> 0 / 2.5 / 3 / ample); ample funds",
    "liquidity models: infinite, volume share (25%,10%), (25%,50%: slippage larger than a grid step), (33%,0)",
    "'up to rounding to quote precision' = half a quote unit per fill",
]
BOUNDS = {"quick": dict(grid=3, bars=3), "thorough": dict(grid=5, bars=3)}
EXPLANATION = ("bounded exhaustive input-shape enumeration against the real exchange; no separate model, so "
               "traces_validated_against_impl counts the cases (each is an implementation run)")
P = PAIRS[0]
CONFIGS = [  # (liquidity, base precision, quote precision, fee %)
    (None, 0, 2, None), ((25, 10), 0, 2, None), ((25, 50), 0, 2, 1), ((33, 0), 1, 0, None), ((25, 10), 2, 2, 1),
    (None, 8, 8, 1),
]
GRIDS = {3: [D(90), D(100), D(110)], 5: [D(80), D(90), D(100), D(110), D(120)]}


async def _noop(ev):
    pass


def shapes(grid):
    out = []
    for lo, hi in itertools.combinations_with_replacement(grid, 2):
        inside = [g for g in grid if lo <= g <= hi]
        for o in inside:
            for c in inside:
                out.append((o, hi, lo, c))
    return out


def scenarios(tier, seed):
    out = [("long", kind, side) for kind in ("mkt", "lim", "stp", "sl") for side in ("B", "S")]
    out += [("other-pair", kind, side) for kind in ("mkt", "lim", "stp", "sl") for side in ("B", "S")]
    out += [("reconfig", kind, side) for kind in ("mkt", "lim", "stp", "sl") for side in ("B", "S")]
    for ci in range(len(CONFIGS)):
        for kind in ("mkt", "lim", "stp", "sl"):
            for side in ("B", "S"):
                grid = GRIDS[BOUNDS[tier]["grid"]]
                lims = grid if kind in ("lim", "sl") else [None]
                for lim in lims:
                    out.append((ci, kind, side, None if lim is None else str(lim)))
    return out


def mk(liq, bp, qp, fee):
    d = bs.backtesting_dispatcher()
    if liq is None:
        lf = liquidity.InfiniteLiquidity
    else:
        def lf():
            return liquidity.VolumeShareImpact(D(liq[0]), D(liq[1]))
    e = ex.Exchange(d, {"USD": D(10 ** 9), "BTC": D(10 ** 6)}, liquidity_strategy_factory=lf,
                    fee_strategy=fees.NoFee() if fee is None else fees.Percentage(D(fee)))
    e.add_bar_source(bs.FifoQueueEventSource())
    e.set_pair_info(P, bs.PairInfo(bp, qp))
    e.set_symbol_precision("BTC", bp)
    e.set_symbol_precision("USD", qp)
    e.subscribe_to_order_events(_noop)
    return d, e


def bar(d, e, t, ohlc, v):
    d._set_now(T(t))
    o, h, lo, c = ohlc
    call(e._on_bar_event(bs.BarEvent(T(t), bs.Bar(T(t - 1), P, o, h, lo, c, v))))


def run_case(cfg, kind, side, amount, lim, stp, bars):
    """Returns (list of (clause, detail), traded?)."""
    try:
        return _run_case(cfg, kind, side, amount, lim, stp, bars)
    except Exception as x:  # noqa: valid requests with ample funds: nothing here may be refused, let alone crash
        return [("internal-error", f"{type(x).__name__}: {x}")], False


def _run_case(cfg, kind, side, amount, lim, stp, bars):
    liq, bp, qp, fee = cfg
    bad = []
    d, e = mk(liq, bp, qp, fee)
    unit = D(1).scaleb(-bp)
    bar(d, e, 1, (D(100), D(100), D(100), D(100)), 1000 * unit)
    amt = D(amount) * unit
    op = SIDE[side]
    if kind == "mkt":
        oid = call(e.create_market_order(op, P, amt)).id
    elif kind == "lim":
        oid = call(e.create_limit_order(op, P, amt, lim)).id
    elif kind == "stp":
        oid = call(e.create_stop_order(op, P, amt, stp)).id
    else:
        oid = call(e.create_stop_limit_order(op, P, amt, stp, lim)).id
    prev = (D(0), D(0))
    stop_seen = False
    t = 1
    first = True
    half = D(1).scaleb(-qp) / 2
    traded = False
    for (ohlc, v) in bars:
        t += 1
        o, h, lo, c = ohlc
        was_open = call(e.get_order_info(oid)).is_open
        try:
            bar(d, e, t, ohlc, D(v) * unit)
        except Exception as x:  # noqa
            bad.append(("bar-raised", f"{type(x).__name__}: {x}"))
            break
        info = call(e.get_order_info(oid))
        db = info.amount_filled - prev[0]
        dq = info.quote_amount_filled - prev[1]
        prev = (info.amount_filled, info.quote_amount_filled)
        if stp is not None and ((side == "B" and h >= stp) or (side == "S" and lo <= stp)):
            stop_seen = True
        if db > 0:
            traded = True
            ctx = f"bar O={o} H={h} L={lo} C={c} V={v}: filled {db} for {dq}"
            if not was_open:
                bad.append(("fill-on-closed-order", ctx))
            if kind in ("lim", "sl"):
                if side == "B" and dq > lim * db + half:
                    bad.append(("worse-than-limit", f"buy limit {lim}; {ctx} = {dq / db} per unit"))
                if side == "S" and dq < lim * db - half:
                    bad.append(("worse-than-limit", f"sell limit {lim}; {ctx} = {dq / db} per unit"))
                if (side == "B" and not lo <= lim) or (side == "S" and not h >= lim):
                    bad.append(("bar-does-not-reach-limit", f"limit {lim}; {ctx}"))
            if kind in ("stp", "sl") and not stop_seen:
                bad.append(("traded-before-stop", f"stop {stp} not reached by any bar so far; {ctx}"))
            if side == "B" and dq < lo * db - half:
                bad.append(("better-than-bar-extreme", f"bought below the low; {ctx}"))
            if side == "S" and dq > h * db + half:
                bad.append(("better-than-bar-extreme", f"sold above the high; {ctx}"))
            if kind in ("mkt", "stp"):
                if dq > h * db + half or dq < lo * db - half:
                    bad.append(("outside-bar-range", ctx))
                ref = o if kind == "mkt" else stp
                if (side == "B" and dq < ref * db - half) or (side == "S" and dq > ref * db + half):
                    bad.append(("better-than-open-or-stop", f"reference {ref}; {ctx}"))
                if db != amt:
                    bad.append(("partial-fill-or-kill", ctx))
        if liq is None and first:
            if kind == "mkt" and info.amount_filled != amt:
                bad.append(("market-not-filled-by-next-bar", f"O={o} H={h} L={lo} C={c}"))
            if kind == "stp":
                reach = (side == "B" and h >= stp) or (side == "S" and lo <= stp)
                if reach != (info.amount_filled == amt):
                    bad.append(("stop-completeness", f"stop {stp}, bar O={o} H={h} L={lo} C={c}, filled {info.amount_filled}"))
            if kind in ("mkt", "stp") and info.is_open:
                bad.append(("fill-or-kill-still-open", "market/stop order open after the first bar of its pair"))
        if liq is None and kind == "lim":
            reach = (side == "B" and lo <= lim) or (side == "S" and h >= lim)
            if was_open and reach != (db == amt):
                bad.append(("limit-completeness", f"limit {lim}, bar O={o} H={h} L={lo} C={c}, filled {db} of {amt}"))
        first = False
    return bad, traded


def run_other_pair(sc, tier, res):
    """Bars of OTHER pairs - one sharing the order's base symbol (ETH/BTC), one sharing its quote symbol (BTC/USD) - leave
    an order on ETH/USD exactly as it is, whatever their prices; the next bar of its own pair then treats it as usual
    (infinite liquidity, ample funds: market by that bar, limit when reached, stop when reached)."""
    from worlds.exch import PAIRS as ALLP
    from worlds.exch_monitors import info_tuple
    _, kind, side = sc
    OWN, SAME_BASE, SAME_QUOTE = ALLP[1], ALLP[2], ALLP[0]
    grid = GRIDS[3]
    other_shapes = [(D(100), D(110), D(90), D(100)), (D(85), D(85), D(85), D(85)), (D(120), D(120), D(120), D(120)),
                    (D(90), D(120), D(80), D(110))]
    own_shapes = [(D(100), D(110), D(90), D(100)), (D(100), D(100), D(100), D(100)), (D(110), D(110), D(110), D(110)),
                  (D(90), D(90), D(90), D(90))]
    lims = grid if kind in ("lim", "sl") else [None]
    stps = grid if kind in ("stp", "sl") else [None]
    for lim in lims:
        for stp in stps:
            for others in itertools.chain(itertools.product((SAME_BASE, SAME_QUOTE), other_shapes),):
                # n_other = 0 with mid: the order is accepted at an instant strictly INSIDE the period of the next bar of its
                # own pair (a job scheduled at noon, the handler of a finer-grained feed of another pair): that bar is still
                # "the next bar of its pair"
                for n_other, mid in ((1, False), (2, False), (0, True), (1, True)):
                    if n_other == 0 and others != (SAME_BASE, other_shapes[0]):
                        continue
                    for own in own_shapes:
                        case = dict(kind="other-pair", order=kind, side=side, limit=None if lim is None else str(lim),
                                    stop=None if stp is None else str(stp), other_pair=str(others[0]),
                                    other_bar=list(map(str, others[1])), n_other=n_other, own_bar=list(map(str, own)),
                                    accepted_mid_bar=mid)
                        bad = []
                        try:
                            d = bs.backtesting_dispatcher()
                            e = ex.Exchange(d, {"USD": D(10 ** 9), "BTC": D(10 ** 6), "ETH": D(10 ** 6)},
                                            liquidity_strategy_factory=liquidity.InfiniteLiquidity)
                            e.add_bar_source(bs.FifoQueueEventSource())
                            e.set_pair_info(OWN, bs.PairInfo(0, 2))
                            e.set_pair_info(SAME_QUOTE, bs.PairInfo(0, 2))
                            e.set_pair_info(SAME_BASE, bs.PairInfo(0, 2))
                            for s_ in ("BTC", "ETH"):
                                e.set_symbol_precision(s_, 2)
                            e.set_symbol_precision("USD", 2)
                            t = 1
                            d._set_now(T(t))
                            flat = (D(100), D(100), D(100), D(100))
                            call(e._on_bar_event(bs.BarEvent(T(t), bs.Bar(T(t - 1), OWN, *flat, D(1000)))))
                            op = SIDE[side]
                            if mid:
                                d._set_now(T(1) + (T(2) - T(1)) / 2)
                            if kind == "mkt":
                                oid = call(e.create_market_order(op, OWN, D(1))).id
                            elif kind == "lim":
                                oid = call(e.create_limit_order(op, OWN, D(1), lim)).id
                            elif kind == "stp":
                                oid = call(e.create_stop_order(op, OWN, D(1), stp)).id
                            else:
                                oid = call(e.create_stop_limit_order(op, OWN, D(1), stp, lim)).id
                            before = info_tuple(call(e.get_order_info(oid)))
                            for k in range(n_other):
                                t += 1
                                d._set_now(T(t))
                                # with mid, the other pair's bars are hourly-like: they END before the own pair's bar does
                                call(e._on_bar_event(bs.BarEvent(T(t), bs.Bar(T(t - 1), others[0], *others[1], D(1000)))))
                                now = info_tuple(call(e.get_order_info(oid)))
                                if now != before:
                                    bad.append(("changed-by-other-pair-bar", f"a bar of {others[0]} changed the order: {before[1:7]} "
                                                f"-> {now[1:7]}"))
                                    break
                            if not bad:
                                t += 1
                                d._set_now(T(t))
                                o, h, lo, c = own
                                begin = T(1) if mid else T(t - 1)
                                call(e._on_bar_event(bs.BarEvent(T(t), bs.Bar(begin, OWN, o, h, lo, c, D(1000)))))
                                info = call(e.get_order_info(oid))
                                filled = info.amount_filled == D(1)
                                if kind == "mkt" and not filled:
                                    bad.append(("market-not-filled-by-next-bar", "market order not filled by the next bar of its pair"))
                                if kind == "stp":
                                    reach = (side == "B" and h >= stp) or (side == "S" and lo <= stp)
                                    if reach != filled:
                                        bad.append(("stop-completeness", f"stop {stp}, own bar {own}, filled {info.amount_filled}"))
                                if kind == "lim":
                                    reach = (side == "B" and lo <= lim) or (side == "S" and h >= lim)
                                    if reach != filled:
                                        bad.append(("limit-completeness", f"limit {lim}, own bar {own}, filled {info.amount_filled}"))
                                if info.amount_filled > 0:
                                    dq, db = info.quote_amount_filled, info.amount_filled
                                    if dq > h * db + D("0.005") or dq < lo * db - D("0.005"):
                                        bad.append(("outside-bar-range", f"filled {db} for {dq} in own bar {own}"))
                        except Exception as x:  # noqa
                            bad.append(("internal-error", f"{type(x).__name__}: {x}"))
                        res.executions += 1
                        res.transitions += n_other + 2
                        res.validated += 1
                        key = h64(("other-pair", repr(case)))
                        res.states.add(key)
                        res.nontrivial.add(key)
                        res.outcomes["other-pair"] += 1
                        for clause, detail in bad:
                            res.violation(f"{PROPERTY}:{clause}:{kind}:{side}", f"{detail}; {case}", case, size=n_other)
    res.samples.append(dict(kind="other-pair", order=kind, side=side))
    return res


def run_reconfig(sc, tier, res):
    """The pair's precision is changed (set_pair_info / set_symbol_precision) AFTER an order of the pair has been processed.
    Orders placed afterwards live on the NEW grid: limits are respected up to rounding at the new quote precision, and with
    infinite liquidity and ample funds they are filled completely (amounts that only exist on the new base grid too)."""
    _, kind, side = sc
    half = {}
    for (bp0, qp0), (bp1, qp1) in (((0, 2), (2, 6)), ((0, 2), (1, 3)), ((2, 2), (3, 4)), ((0, 0), (2, 2))):
        for how in ("pair", "symbols"):
            for first in ("mkt", "lim"):
                for amount, price in ((3, "1.234567"), (25, "0.987654"), (1, "33.333333")):
                    case = dict(kind="reconfig", order=kind, side=side, before=[bp0, qp0], after=[bp1, qp1], how=how, first=first,
                                amount=amount, price=price)
                    bad = []
                    try:
                        d = bs.backtesting_dispatcher()
                        e = ex.Exchange(d, {"USD": D(10 ** 9), "BTC": D(10 ** 6)}, liquidity_strategy_factory=liquidity.InfiniteLiquidity)
                        e.add_bar_source(bs.FifoQueueEventSource())
                        if how == "pair":
                            e.set_pair_info(P, bs.PairInfo(bp0, qp0))
                        e.set_symbol_precision("BTC", bp0)
                        e.set_symbol_precision("USD", qp0)
                        uq1 = D(1).scaleb(-qp1)
                        px = D(price).quantize(uq1)
                        flat = (px, px, px, px)
                        t = 1
                        bar(d, e, t, flat, D(1000))
                        # an order of the pair is accepted and processed under the first configuration
                        if first == "mkt":
                            call(e.create_market_order(SIDE["B"], P, D(10)))
                        else:
                            call(e.create_limit_order(SIDE["B"], P, D(10), (px * 2).quantize(D(1).scaleb(-qp0))))
                        t += 1
                        bar(d, e, t, flat, D(1000))
                        # reconfiguration
                        if how == "pair":
                            e.set_pair_info(P, bs.PairInfo(bp1, qp1))
                        e.set_symbol_precision("BTC", bp1)
                        e.set_symbol_precision("USD", qp1)
                        amt = D(amount) * D(1).scaleb(-bp1)
                        op = SIDE[side]
                        if kind == "mkt":
                            oid = call(e.create_market_order(op, P, amt)).id
                        elif kind == "lim":
                            oid = call(e.create_limit_order(op, P, amt, px)).id
                        elif kind == "stp":
                            oid = call(e.create_stop_order(op, P, amt, px)).id
                        else:
                            oid = call(e.create_stop_limit_order(op, P, amt, px, px)).id
                        t += 1
                        bar(d, e, t, flat, D(1000))
                        info = call(e.get_order_info(oid))
                        if info.amount_filled != amt:
                            bad.append(("not-filled-after-reconfiguration", f"{kind} {side} {amt} @ {px}: filled {info.amount_filled} by "
                                        f"a flat bar at {px} (infinite liquidity, ample funds)"))
                        if info.amount_filled > 0:
                            db, dq = info.amount_filled, info.quote_amount_filled
                            if abs(dq - px * db) > uq1 / 2:
                                bad.append(("price-after-reconfiguration", f"{kind} {side}: {db} traded for {dq} in a flat bar at {px}: "
                                            f"off by more than rounding at the new quote precision {qp1}"))
                    except Exception as x:  # noqa
                        bad.append(("internal-error", f"{type(x).__name__}: {x}"))
                    res.executions += 1
                    res.transitions += 3
                    res.validated += 1
                    key = h64(("reconfig", repr(case)))
                    res.states.add(key)
                    res.nontrivial.add(key)
                    res.outcomes["reconfig"] += 1
                    for clause, detail in bad:
                        res.violation(f"{PROPERTY}:{clause}:{kind}:{side}", f"{detail}; {case}", case, size=3)
    res.samples.append(dict(kind="reconfig", order=kind, side=side))
    return res


def run_long(sc, tier, res):
    """Completeness on long two-pair histories: an order on one pair rests while N bars of ANOTHER pair go by (the
    exchange looks its open orders up on each of them, re-indexing the list every 50 look-ups); the first bar of its own
    pair that should fill it must fill it. Infinite liquidity, ample funds."""
    from worlds.exch import PAIRS as ALLP
    _, kind, side = sc
    P2 = ALLP[1]
    maxn = 130 if tier == "quick" else 260
    for n_other in range(0, maxn):
        for extra_lookups in (0, 1, 2):
            d = bs.backtesting_dispatcher()
            e = ex.Exchange(d, {"USD": D(10 ** 9), "BTC": D(10 ** 6), "ETH": D(10 ** 6)},
                            liquidity_strategy_factory=liquidity.InfiniteLiquidity)
            e.add_bar_source(bs.FifoQueueEventSource())
            for p in (P, P2):
                e.set_pair_info(p, bs.PairInfo(0, 2))
            for s_ in ("BTC", "ETH"):
                e.set_symbol_precision(s_, 0)
            e.set_symbol_precision("USD", 2)
            flat = (D(100), D(100), D(100), D(100))
            t = 1
            d._set_now(T(t))
            call(e._on_bar_event(bs.BarEvent(T(t), bs.Bar(T(t - 1), P, *flat, D(1000)))))
            op = SIDE[side]
            if kind == "mkt":
                oid = call(e.create_market_order(op, P, D(1))).id
            elif kind == "lim":
                oid = call(e.create_limit_order(op, P, D(1), D(90) if side == "B" else D(110))).id
            elif kind == "stp":
                oid = call(e.create_stop_order(op, P, D(1), D(110) if side == "B" else D(90))).id
            else:
                oid = call(e.create_stop_limit_order(op, P, D(1), D(110) if side == "B" else D(90), D(110) if side == "B" else D(90))).id
            for k in range(extra_lookups):
                call(e.get_open_orders())
            try:
                for k in range(n_other):
                    t += 1
                    d._set_now(T(t))
                    call(e._on_bar_event(bs.BarEvent(T(t), bs.Bar(T(t - 1), P2, *flat, D(1000)))))
            except Exception as x:  # noqa
                case = dict(kind="long", order=kind, side=side, other_pair_bars=n_other, extra_lookups=extra_lookups)
                res.violation(f"{PROPERTY}:bar-raised:{kind}:{side}", f"a bar of another pair raised {type(x).__name__}: {x}; "
                              f"{case}", case, size=n_other)
                continue
            t += 1
            d._set_now(T(t))
            wide = (D(100), D(110), D(90), D(100))
            try:
                call(e._on_bar_event(bs.BarEvent(T(t), bs.Bar(T(t - 1), P, *wide, D(1000)))))
            except Exception as x:  # noqa: reported below as "not filled" together with what was raised
                res.extra["long_bar_raised"] += 1
            info = call(e.get_order_info(oid))
            res.executions += 1
            res.transitions += n_other + 2
            res.validated += 1
            key = h64(("long", kind, side, n_other, extra_lookups))
            res.states.add(key)
            res.nontrivial.add(key)
            res.outcomes["long:filled" if info.amount_filled == 1 else "long:not-filled"] += 1
            if info.amount_filled != D(1):
                case = dict(kind="long", order=kind, side=side, other_pair_bars=n_other, extra_lookups=extra_lookups)
                res.violation(f"{PROPERTY}:not-filled-by-first-reaching-bar:{kind}:{side}",
                              f"{kind} order not filled by the first bar of its pair whose range reaches its price, after "
                              f"{n_other} bars of another pair; {case}", case, size=n_other)
    res.samples.append(dict(kind="long", order=kind, side=side, other_pair_bars="0..%d" % (maxn - 1)))
    return res


def run_scenario(sc, tier):
    res = Result()
    if sc[0] == "long":
        return run_long(sc, tier, res)
    if sc[0] == "other-pair":
        return run_other_pair(sc, tier, res)
    if sc[0] == "reconfig":
        return run_reconfig(sc, tier, res)
    ci, kind, side, lim_s = sc
    cfg = CONFIGS[ci]
    liq = cfg[0]
    grid = GRIDS[BOUNDS[tier]["grid"]]
    lim = None if lim_s is None else D(lim_s)
    SH = shapes(grid)
    SH2 = [(D(100), D(100), D(100), D(100)), (grid[0], grid[-1], grid[0], grid[-1]), (grid[-1], grid[-1], grid[0], grid[0]),
           (D(90), D(110), D(90), D(100))]
    if tier == "thorough":
        SH2 += [(D(110), D(110), D(110), D(110)), (D(90), D(90), D(90), D(90))]
    vols = (1000, 0) if liq is None else (0, 10, 12, 1000)  # infinite liquidity does not depend on the bar's volume
    vols2 = (1000, 0) if liq is None else (10, 1000)
    stps = grid if kind in ("stp", "sl") else [None]
    nbars = BOUNDS[tier]["bars"]
    for amount in (1, 3):
        for stp in stps:
            for sh in SH:
                for v in vols:
                    for sh2 in SH2:
                        for v2 in vols2:
                            tails = [[]]
                            if nbars >= 3:
                                tails = [[(s3, 1000 if liq is None else 12)] for s3 in SH2[:4]]
                            for tail in tails:
                                bars = [(sh, v), (sh2, v2)] + tail
                                bad, traded = run_case(cfg, kind, side, amount, lim, stp, bars)
                                res.executions += 1
                                res.transitions += len(bars)
                                res.validated += 1
                                key = h64((sc, amount, stp, bars))
                                res.states.add(key)
                                if traded:
                                    res.nontrivial.add(key)
                                res.outcomes["traded" if traded else "no-trade"] += 1
                                case = dict(config=list(map(_s, cfg)), kind=kind, side=side, amount=amount, limit=lim_s,
                                            stop=None if stp is None else str(stp),
                                            bars=[[list(map(str, b[0])), b[1]] for b in bars])
                                if not res.samples and traded:
                                    res.samples.append(case)
                                for clause, detail in bad:
                                    res.violation(f"{PROPERTY}:{clause}:{kind}:{side}", f"{detail}; {case}", case,
                                                  size=amount + len(bars))
    return res


def _s(x):
    return None if x is None else (list(x) if isinstance(x, tuple) else x)


def replay(rep):
    if rep.get("kind") == "reconfig":
        res = Result()
        run_reconfig(("reconfig", rep["order"], rep["side"]), "quick", res)
        want = {k: rep[k] for k in ("before", "after", "how", "first", "amount", "price")}
        return [v["message"] for v in res.violations if all(v["replay"].get(k) == x for k, x in want.items())][:3]
    if rep.get("kind") == "other-pair":
        res = Result()
        run_other_pair(("other-pair", rep["order"], rep["side"]), "quick", res)
        want = {k: rep[k] for k in ("limit", "stop", "other_pair", "other_bar", "n_other", "own_bar")}
        want["accepted_mid_bar"] = rep.get("accepted_mid_bar", False)
        return [v["message"] for v in res.violations if all(v["replay"].get(k) == x for k, x in want.items())][:3]
    if rep.get("kind") == "long":
        res = Result()
        run_long(("long", rep["order"], rep["side"]), "quick", res)
        return [v["message"] for v in res.violations if f"'other_pair_bars': {rep['other_pair_bars']}," in v["message"]][:3]
    cfg = tuple(tuple(x) if isinstance(x, list) else x for x in rep["config"])
    bars = [(tuple(D(x) for x in b[0]), b[1]) for b in rep["bars"]]
    lim = None if rep["limit"] is None else D(rep["limit"])
    stp = None if rep["stop"] is None else D(rep["stop"])
    print("config (liquidity, base precision, quote precision, fee%):", cfg)
    print("order:", rep["kind"], rep["side"], rep["amount"], "units, limit", lim, "stop", stp)
    print("bars after acceptance (O,H,L,C),V:", bars)
    bad, traded = run_case(cfg, rep["kind"], rep["side"], rep["amount"], lim, stp, bars)
    return [f"{c}: {d}" for c, d in bad]

"""C14 - dispatcher lifecycle, fault isolation, bounded concurrency, logging (DESIGN.md 4, C14).

Both real dispatchers on the virtual loop. Producers failing in initialize / main (at once, after a while, returning
early) / finalize; exit paths: sources exhausted, stop() from a handler, handler error with stop_on_handler_exceptions,
stop() injected at EVERY loop step, external task.cancel() injected at EVERY loop step (thorough: stop followed by
cancel, and two cancels); due events, due jobs and idle handlers competing for a pool of 1..3; short and very long
handlers; root log level WARNING / DEBUG.
"""
import asyncio
import collections
import itertools
import logging
import time

import basana as bs
from basana.core import event

from mc.chooser import Chooser, explore
from mc.framework import Result, h64
from worlds.dsp import T, run_on_vloop

PROPERTY = "C14"
RULE = ("scenario = (dispatcher kind, failure mode per producer, max_concurrent, injected fault kind, #due jobs, #due "
        "events per source, handler flavour, handler duration, #idle handlers, log level); per scenario the fault is "
        "injected at every loop step in turn (one execution per step, plus the fault-free execution). Distinct = "
        "distinct (scenario, call trace, outcome); non-trivial = the run got past initialisation.")
ASSUMPTIONS = [
    "2 producers (quick) / up to 3 (thorough); producer set order fixed by harness-defined __hash__, all orders via "
    "the product of failure modes",
    "faults are injected at loop-step granularity (between two callbacks of the event loop), which is the only place "
    "where asyncio code can observe them",
    "the realtime dispatcher never ends by itself: its executions are ended by a stop() at 0.5 virtual seconds and "
    "watched up to a horizon of 5 virtual seconds",
    "promptness = the run ends within 1 virtual second of the injected stop/cancel although handlers sleep for 500",
]
BOUNDS = {"quick": dict(producers=2, inject_steps=400, deviation_bound=1),
          "thorough": dict(producers=3, inject_steps=600, deviation_bound=2)}
EXPLANATION = ("implementation-level model checking with fault injection at every loop step; "
               "traces_validated_against_impl counts executions re-run from their recorded choices with identical "
               "observations")
FAILS = (None, "init", "main0", "main1", "mainret", "fin")
LONG = 500.0


class PErr(Exception):
    pass


class Prod(event.Producer):
    def __init__(self, name, fail, log, hashv, loop_time, long_main):
        self.name = name
        self.fail = fail
        self.log = log
        self._h = hashv
        self._t = loop_time
        self._long = long_main
        self.exc = PErr(name)

    def __hash__(self):
        return self._h

    def __eq__(self, o):
        return self is o

    async def initialize(self):
        self.log.append(("init-start", self.name))
        await asyncio.sleep(0)
        if self.fail == "init":
            raise self.exc
        self.log.append(("init-end", self.name))

    async def main(self):
        self.log.append(("main-start", self.name))
        if self.fail == "main0":
            raise self.exc
        await asyncio.sleep(0.02)
        if self.fail == "main1":
            raise self.exc
        if self.fail == "mainret":
            return
        await asyncio.sleep(self._long)

    async def finalize(self):
        self.log.append(("fin", self.name))
        await asyncio.sleep(0)
        self.log.append(("fin-end", self.name))
        if self.fail == "fin":
            raise self.exc


class _Capture(logging.Handler):
    def __init__(self):
        super().__init__()
        self.n = 0

    def emit(self, record):
        self.n += 1
        record.getMessage()


def scenarios(tier, seed):
    out = []
    nprod = BOUNDS[tier]["producers"]
    for kind in ("bt", "rt"):
        # family A: lifecycle x exit path x injection at every step
        for fails in itertools.product(FAILS, repeat=2):
            for maxc in (1, 2):
                for inject in (None, "stop", "cancel"):
                    for hflavour in ("plain",):
                        out.append((kind, fails, maxc, inject, 2, 2, hflavour, 0.03, 0, "WARNING"))
        # handler flavours and long handlers (promptness), fewer failure modes
        for fails in ((None, None), (None, "main1"), ("fin", None)):
            for maxc in (1, 2, 3):
                for inject in (None, "stop", "cancel"):
                    for hflavour in ("raises", "raises-stop", "stops", "job-raises"):
                        out.append((kind, fails, maxc, inject, 2, 2, hflavour, 0.03, 0, "WARNING"))
                    out.append((kind, fails, maxc, inject, 1, 2, "plain", LONG, 0, "WARNING"))
                    if kind == "rt":
                        out.append((kind, fails, maxc, inject, 2, 2, "plain", 0.03, 2, "WARNING"))
                        out.append((kind, fails, maxc, inject, 0, 1, "plain", 0.0, 1, "WARNING"))
        # logging
        for fails in ((None, None), ("init", None), (None, "main0"), ("fin", None)):
            for inject in (None, "stop", "cancel"):
                for nev in (0, 1):
                    out.append((kind, fails, 2, inject, 1 if nev else 0, nev, "raises" if nev else "plain", 0.03, 0, "DEBUG"))
        # two injections (quick: double cancellation only, within the first 150 loop steps)
        if tier == "quick":
            out.append((kind, (None, None), 1, "cancel+cancel", 1, 2, "plain", LONG, 0, "WARNING"))
        if tier == "thorough":
            for fails in itertools.product(FAILS, repeat=3):
                if sum(1 for f in fails if f) > 2:
                    continue
                for maxc in (1, 2):
                    for inject in (None, "stop", "cancel"):
                        out.append((kind, fails, maxc, inject, 1, 1, "plain", 0.03, 0, "WARNING"))
            for fails in ((None, None), (None, "main1"), ("init", None), ("fin", "fin")):
                for maxc in (1, 2):
                    for inject in ("stop+cancel", "cancel+cancel", "stop+stop"):
                        out.append((kind, fails, maxc, inject, 2, 2, "plain", 0.03, 0, "WARNING"))
                        out.append((kind, fails, maxc, inject, 1, 2, "plain", LONG, 0, "WARNING"))
    return out


def make_run(sc, tier, states=None):
    kind, fails, maxc, inject, njobs, nev, hflavour, hdur, nidle, loglevel = sc
    inject_steps = BOUNDS[tier]["inject_steps"]
    kinds = inject.split("+") if inject else []
    if len(kinds) > 1 and tier == "quick":
        inject_steps = 150

    def run_one(ch):
        log = []
        d = bs.backtesting_dispatcher(maxc) if kind == "bt" else bs.realtime_dispatcher(maxc)
        d.stop_on_handler_exceptions = hflavour == "raises-stop"
        state = {"task": None, "injected": [], "loop": None, "inj_time": None}

        def lt():
            return state["loop"].time() if state["loop"] else 0.0
        prods = [Prod(f"p{i}", f, log, i, lt, LONG * 4 if kind == "bt" else 0.3) for i, f in enumerate(fails)]
        srcs = [bs.FifoQueueEventSource(producer=p, events=[bs.Event(T(0.0)) for _ in range(nev)]) for p in prods]
        inflight = [0]
        maxin = [0]
        counts = collections.Counter()

        active = collections.Counter()  # event serial / job key -> running handlers
        serial = [0]

        def key_of(e):
            if not hasattr(e, "_vid"):
                serial[0] += 1
                e._vid = serial[0]
            return e._vid

        def enter(what, key):
            active[key] += 1
            inflight[0] = sum(1 for v in active.values() if v > 0)
            maxin[0] = max(maxin[0], inflight[0])
            counts[what] += 1
            log.append((what,))

        def leave(key):
            active[key] -= 1
            inflight[0] = sum(1 for v in active.values() if v > 0)

        async def ha(e):
            enter("ha", key_of(e))
            try:
                if hflavour in ("raises", "raises-stop"):
                    raise ValueError("handler fails")
                if hflavour == "stops":
                    d.stop()
                if hdur:
                    await asyncio.sleep(hdur)
            finally:
                leave(key_of(e))

        async def hb(e):
            enter("hb", key_of(e))
            try:
                if hdur:
                    await asyncio.sleep(hdur)
            finally:
                leave(key_of(e))

        def mkjob(k):
            async def job():
                enter("job", ("job", k))
                try:
                    if hflavour == "job-raises" and k == 0:
                        raise ValueError("job fails")
                    if hdur:
                        await asyncio.sleep(min(hdur, 0.03))
                finally:
                    leave(("job", k))
            return job

        for s in srcs:
            d.subscribe(s, ha)
            d.subscribe(s, hb)
        for k in range(njobs):
            d.schedule(T(0.0), mkjob(k))
        for k in range(nidle):
            async def idle(k=k):
                counts["idle"] += 1
                await asyncio.sleep(0.004)
            d.subscribe_idle(idle)

        async def main():
            state["task"] = asyncio.current_task()
            if kind == "rt":
                async def limiter():
                    await asyncio.sleep(0.5)
                    state["limited"] = True
                    log.append(("limiter-stop",))
                    d.stop()
                state["limiter"] = asyncio.ensure_future(limiter())
            try:
                await d.run(stop_signals=[])
            finally:
                if kind == "rt":
                    state["limiter"].cancel()

        def on_step(loop):
            state["loop"] = loop
            if states is not None:
                states.add(h64((len(log), inflight[0], len(state["injected"]), d.stopped)))
            k = len(state["injected"])
            if k < len(kinds) and state["task"] is not None and loop.steps < inject_steps:
                if ch.choose(2, "inject"):
                    state["injected"].append(loop.steps)
                    if state["inj_time"] is None:
                        state["inj_time"] = loop.time()
                    log.append(("inject", kinds[k]))
                    try:
                        if kinds[k] == "stop":
                            d.stop()
                        else:
                            state["task"].cancel()
                    except Exception as e:  # stop() itself must never fail (e.g. because logging does)
                        state["inject_exc"] = type(e).__name__ + ": " + str(e)[:60]

        # logging set-up
        root = logging.getLogger()
        cap = None
        old_level = root.level
        f0 = logging.getLogRecordFactory()
        if loglevel == "DEBUG":
            cap = _Capture()
            root.addHandler(cap)
            root.setLevel(logging.DEBUG)
            logging.disable(logging.NOTSET)
        try:
            out, exc, loop = run_on_vloop(lambda loop: main(), on_step=on_step,
                                          horizon=5.0 if kind == "rt" else None, max_steps=20000)
        finally:
            logging.disable(logging.CRITICAL)
            if cap is not None:
                root.removeHandler(cap)
                root.setLevel(old_level)
        f1 = logging.getLogRecordFactory()
        log_after = "ok"
        if f1 is not f0:
            log_after = "factory-not-restored"
        try:
            rec = f1("verif", logging.WARNING, __file__, 1, "after run", (), None)
            if abs(rec.created - time.time()) > 3600:
                log_after = "simulated-timestamp-after-run"
        except Exception as e:  # noqa
            log_after = "logging-raises:" + type(e).__name__
        logging.setLogRecordFactory(f0)
        if out == "raised":
            out = "producer-error" if any(exc is p.exc for p in prods) else "raised:" + type(exc).__name__
        errs = [str(c.get("message"))[:50] for c in loop.errors]
        return dict(out=out, log=log, maxin=maxin[0], injected=state["injected"], steps=loop.end_steps,
                    end_time=loop.time(), inj_time=state["inj_time"], limited=bool(state.get("limited")),
                    counts=dict(counts), errs=errs, log_after=log_after, inject_exc=state.get("inject_exc"))
    return run_one


def oracle(sc, r):
    kind, fails, maxc, inject, njobs, nev, hflavour, hdur, nidle, loglevel = sc
    bad = []
    log = r["log"]
    n = len(fails)
    inits_end = [i for i, x in enumerate(log) if x[0] == "init-end"]
    mains = [i for i, x in enumerate(log) if x[0] == "main-start"]
    if mains and (len(inits_end) < n or min(mains) < max(inits_end)):
        bad.append(("main-before-init", "a producer's main started before every producer was initialised"))
    fins = collections.Counter(x[1] for x in log if x[0] == "fin")
    fin_ends = collections.Counter(x[1] for x in log if x[0] == "fin-end")
    for i in range(n):
        if fins[f"p{i}"] != 1:
            bad.append(("finalize-count", f"producer p{i} finalised {fins[f'p{i}']}x"))
        elif fin_ends[f"p{i}"] != 1:
            bad.append(("finalize-interrupted", f"producer p{i}'s finalize did not run to completion"))
    if r["maxin"] > maxc:
        bad.append(("pool-overflow", f"{r['maxin']} events/jobs in flight with max_concurrent={maxc}"))
    out = r["out"]
    injected = [x[1] for x in log if x[0] == "inject"]
    allowed = {"returned"}
    if any(f in ("init", "main0", "main1") for f in fails):
        allowed.add("producer-error")
    if "cancel" in injected:
        allowed.add("cancelled")
    if out not in allowed:
        if out == "horizon" and kind == "rt":
            bad.append(("not-prompt", "run still going at the horizon (5 virtual s) after stop/cancel/failure"))
        else:
            bad.append(("outcome", f"run ended with {out}, allowed {sorted(allowed)}"))
    elif injected and out == "returned" and injected == ["cancel"] and not r["limited"] and hflavour not in ("stops", "raises-stop") \
            and not any(f in ("init", "main0", "main1", "mainret") for f in fails):
        # a cancelled run that nobody stopped must not pretend it returned normally. (Backtesting: unless everything had
        # been handled already, i.e. the cancellation arrived when the run was over anyway.)
        c = r["counts"]
        unfinished = kind == "rt" or c.get("ha", 0) < nev * n or c.get("job", 0) < njobs
        if unfinished and hdur < 1:
            bad.append(("cancel-swallowed", "run() returned normally although the caller cancelled it before it was over "
                        "and nobody stopped it"))
    # promptness: handlers in flight are cancelled, not awaited
    if r["inj_time"] is not None and out in ("returned", "cancelled", "producer-error"):
        if r["end_time"] - r["inj_time"] > 1.0:
            bad.append(("not-prompt", f"run ended {r['end_time'] - r['inj_time']:.2f} virtual s after the injected fault"))
    if r["inject_exc"]:
        bad.append(("stop-raises", f"stop() raised {r['inject_exc']}"))
    if r["log_after"] != "ok":
        bad.append(("logging", r["log_after"]))
    # fault isolation: in an undisturbed run everything is handled although a handler / job raises
    undisturbed = not injected and not any(fails) and hflavour not in ("stops", "raises-stop")
    if undisturbed and out == "returned" and hdur < 1:
        c = r["counts"]
        exp_ev = nev * n
        if c.get("ha", 0) != exp_ev or c.get("hb", 0) != exp_ev:
            bad.append(("fault-isolation", f"handlers ran {c.get('ha', 0)}/{c.get('hb', 0)} times for {exp_ev} events"))
        if c.get("job", 0) != njobs:
            bad.append(("fault-isolation", f"{c.get('job', 0)} of {njobs} jobs ran"))
    return bad


def run_scenario(sc, tier):
    res = Result()
    bound = 2 if (sc[3] and "+" in sc[3]) else 1
    first = True
    for choices, tr, r in explore(make_run(sc, tier, res.states), bound, cost=lambda tag, c: c):
        if sc[3] and "+" in sc[3] and len(r["injected"]) == 1:
            pass  # single injection of a pair scenario: also legitimate, checked with the same oracle
        res.executions += 1
        res.transitions += r["steps"]
        res.outcomes[(sc[0], sc[3], r["out"])] += 1
        if any(x[0] == "main-start" for x in r["log"]):
            res.nontrivial.add(h64((sc, tuple(r["log"]), r["out"])))
        bad = oracle(sc, r)
        if first or bad:
            r2 = make_run(sc, tier)(Chooser(choices))
            # (the number of loop steps is not compared: asyncio.wait() iterates a set of tasks in address order)
            if (r2["log"], r2["out"]) != (r["log"], r["out"]):
                raise RuntimeError(f"HARNESS-NONDETERMINISM scenario={sc} choices={choices}")
            res.validated += 1
        if first:
            res.samples.append(dict(scenario=repr(sc), injected_at_steps=r["injected"], log=[list(x) for x in r["log"]],
                                    outcome=r["out"]))
            first = False
        for clause, detail in bad:
            res.violation(f"{PROPERTY}:{clause}:{sc[0]}", f"{detail}; scenario={sc} injected_at={r['injected']} "
                          f"steps={r['steps']}", dict(scenario=list(sc), choices=choices, tier=tier),
                          size=len(sc[1]) * 1000 + sum(1 for f in sc[1] if f) * 100 + (r["injected"][0] if r["injected"] else 0))
    return res


def replay(rep):
    s = rep["scenario"]
    sc = (s[0], tuple(s[1])) + tuple(s[2:])
    r = make_run(sc, rep.get("tier", "quick"))(Chooser(rep["choices"]))
    print("scenario:", sc)
    for x in r["log"]:
        print("  ", x)
    print({k: v for k, v in r.items() if k != "log"})
    return [f"{c}: {d}" for c, d in oracle(sc, r)]

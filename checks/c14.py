"""C14 - dispatcher lifecycle, fault isolation, bounded concurrency, logging (DESIGN.md 4, C14).

Both real dispatchers on the virtual loop. Producers failing in initialize / main (at once, after a while, returning
early) / finalize; exit paths: sources exhausted, stop() from a handler, handler error with stop_on_handler_exceptions,
stop() injected at EVERY loop step, external task.cancel() injected at EVERY loop step (thorough: stop followed by
cancel, and two cancels); due events, due jobs and idle handlers competing for a pool of 1..3; short and very long
handlers; root log level WARNING / DEBUG; an application-installed log record factory. Handlers registered with
subscribe_all (front-running and trailing, two of each, the first one raising), idle handlers that raise, events and jobs
that become due LATER than the failing handler (also a job beyond the last event of a backtest).

Besides counting handler entries the harness records how every handler invocation ended (returned / raised / cancelled),
which handlers were still running when run() ended (nobody may be: in-flight handlers are cancelled by the dispatcher), and
the moment of every stop trigger (injected fault, stop() from a handler, handler error with stop-on-error, producer
failure), from which the run must end promptly.
"""
import asyncio
import collections
import functools
import itertools
import logging
import time

import basana as bs
from basana.core import event

from mc.chooser import Chooser, explore
from mc.framework import Result, h64
from worlds.dsp import T, run_on_vloop

PROPERTY = "C14"
RULE = ("scenario = (dispatcher kind, failure mode per producer, max_concurrent, injected fault kind, #due jobs, #due "
        "events per source, handler flavour, handler duration, #idle handlers, log level, options: later events and jobs / "
        "application log record factory / instant of the limiting stop()); per scenario the fault is injected at every "
        "loop step in turn up to inject_steps (one execution per step, plus the fault-free execution); "
        "`runs_longer_than_injection_window` counts fault-free executions that took more loop steps than that window. "
        "Distinct = distinct (scenario, call trace, outcome); non-trivial = the run got past initialisation.")
ASSUMPTIONS = [
    "2 producers (quick) / up to 3 (thorough); producer set order fixed by harness-defined __hash__, all orders via "
    "the product of failure modes",
    "faults are injected at loop-step granularity (between two callbacks of the event loop), which is the only place "
    "where asyncio code can observe them",
    "the realtime dispatcher never ends by itself: its executions are ended by a stop() at 0.5 virtual seconds (0.2 "
    "in the scenarios with idle handlers, 0.3 in those with later events) and watched up to a horizon of 5 virtual seconds",
    "promptness = the run ends within 1 virtual second of the first stop trigger (injected stop/cancel, stop() from a "
    "handler, handler error with stop-on-error, producer failure, limiting stop) although handlers / jobs sleep for 500",
    "how a handler ended is only judged in runs nobody disturbed (no injection, no producer failure, no stop from a "
    "handler) in which some handler / job / idle handler raises: there every other event / job handler runs to its end",
    "a log record factory that a handler installs during the run (chained to the current one) may stay installed or be "
    "removed by the dispatcher: only 'a record created afterwards carries real time and creating it does not fail' is "
    "demanded in those scenarios",
    "finalize of one producer raising at once while the others' finalize sleeps 0.01 virtual s: each finalize was entered "
    "once and had completed when run() ended",
    "the order in which the catch-all handlers of one stage start is not observed; signal-driven stop is not explored "
    "(stop_signals=[])",
]
BOUNDS = {"quick": dict(producers=2, inject_steps=1300, deviation_bound=1),
          "thorough": dict(producers=3, inject_steps=2500, deviation_bound=2)}
EXPLANATION = ("implementation-level model checking with fault injection at every loop step; "
               "traces_validated_against_impl counts executions re-run from their recorded choices with identical "
               "observations")
FAILS = (None, "init", "main0", "main1", "mainret", "fin")
LONG = 500.0
LATE = 0.05        # later events / jobs (options: late)
BEYOND = 0.08      # a job beyond the last event
SHORT_LIMIT = 0.2
HD = 0.012         # handler duration in the scenarios with later events: a little more than one poll period
IDLE_SLEEP = 0.008


def _opts(**kw):
    return tuple(sorted(kw.items()))


class PErr(Exception):
    pass


class Prod(event.Producer):
    def __init__(self, name, fail, log, hashv, loop_time, long_main, trigger=lambda: None):
        self.trigger = trigger
        self.name = name
        self.fail = fail
        self.log = log
        self._h = hashv
        self._t = loop_time
        self._long = long_main
        self.exc = PErr(name)

    def __hash__(self):
        return self._h

    def __eq__(self, o):
        return self is o

    async def initialize(self):
        self.log.append(("init-start", self.name))
        await asyncio.sleep(0)
        if self.fail == "init":
            self.trigger()
            raise self.exc
        self.log.append(("init-end", self.name))

    async def main(self):
        self.log.append(("main-start", self.name))
        if self.fail == "main0":
            self.trigger()
            raise self.exc
        await asyncio.sleep(0.02)
        if self.fail == "main1":
            self.trigger()
            raise self.exc
        if self.fail == "mainret":
            return
        await asyncio.sleep(self._long)

    fin_sleep = 0.0   # > 0: finalize really suspends (closing a connection ...)

    async def finalize(self):
        self.log.append(("fin", self.name))
        if self.fail == "fin0":   # fails at once, while the other producers' finalize is still in progress
            self.log.append(("fin-end", self.name))
            raise self.exc
        await asyncio.sleep(self.fin_sleep)
        self.log.append(("fin-end", self.name))
        if self.fail == "fin":
            raise self.exc


class _CallableObj:
    """A handler / job that is an instance with `async def __call__` (no __qualname__ / __name__ of its own)."""

    def __init__(self, fn):
        self._fn = fn

    async def __call__(self, *args):
        return await self._fn(*args)


async def _call_with_extra(fn, *args, limit=None):
    return await fn(*args)


def as_kind(fn, kind):
    """The same async callable as a plain function / a functools.partial / a callable instance."""
    if kind == "partial":
        return functools.partial(_call_with_extra, fn, limit=10)
    if kind == "callable":
        return _CallableObj(fn)
    return fn


class _Capture(logging.Handler):
    def __init__(self):
        super().__init__()
        self.n = 0

    def emit(self, record):
        self.n += 1
        record.getMessage()


def scenarios(tier, seed):
    out = []
    nprod = BOUNDS[tier]["producers"]
    for kind in ("bt", "rt"):
        # family A: lifecycle x exit path x injection at every step
        for fails in itertools.product(FAILS, repeat=2):
            for maxc in (1, 2):
                for inject in (None, "stop", "cancel"):
                    for hflavour in ("plain",):
                        out.append((kind, fails, maxc, inject, 2, 2, hflavour, 0.03, 0, "WARNING"))
        # handler flavours and long handlers (promptness), fewer failure modes
        for fails in ((None, None), (None, "main1"), ("fin", None)):
            for maxc in (1, 2, 3):
                for inject in (None, "stop", "cancel"):
                    for hflavour in ("raises", "raises-stop", "stops", "job-raises"):
                        out.append((kind, fails, maxc, inject, 2, 2, hflavour, 0.03, 0, "WARNING"))
                    out.append((kind, fails, maxc, inject, 1, 2, "plain", LONG, 0, "WARNING"))
                    if kind == "rt":
                        out.append((kind, fails, maxc, inject, 2, 2, "plain", 0.03, 2, "WARNING", _opts(limit=SHORT_LIMIT)))
                        out.append((kind, fails, maxc, inject, 0, 1, "plain", 0.0, 1, "WARNING", _opts(limit=SHORT_LIMIT)))
        # catch-all handlers (all three stages of an event's dispatch), a raising one first in its stage; handlers and jobs
        # that fail followed by LATER events and jobs; stop / stop-on-error next to very long handlers and jobs; raising idle
        # handlers followed by later events and jobs
        for fails in ((None, None), (None, "main1")):
            for maxc in (1, 2):
                for inject in (None, "stop", "cancel"):
                    late = _opts(late=True, limit=0.3)  # (a pool of 1 needs 0.2 s for the three stages of four events)
                    for hflavour in ("post-raises", "pre-raises", "raises", "job-raises"):
                        out.append((kind, fails, maxc, inject, 1, 1, hflavour, HD, 0, "WARNING", late))
                    for hflavour in ("stops", "raises-stop"):
                        out.append((kind, fails, maxc, inject, 1, 2, hflavour, LONG, 0, "WARNING"))
                    if kind == "rt":
                        for nidle in (1, 2):
                            out.append((kind, fails, maxc, inject, 1, 1, "idle-raises", HD, nidle, "WARNING",
                                        _opts(late=True, limit=SHORT_LIMIT)))
        # what kind of callable the failing handler / job is (plain function, functools.partial, callable instance), for
        # every place a failure can come from, with and without stop-on-error; fault-free executions only (one each)
        for fails in ((None, None), (None, "main1")):
            for maxc in (1, 2, 3):
                for rk in ("fn", "partial", "callable"):
                    late = _opts(late=True, limit=0.3, rk=rk)
                    for hflavour in ("raises", "raises-sniff", "job-raises", "pre-raises", "post-raises", "raises-stop",
                                     "job-raises-stop"):
                        out.append((kind, fails, maxc, None, 1, 1, hflavour, HD, 0, "WARNING", late))
                    for hflavour in ("raises-stop", "job-raises-stop"):
                        if rk != "fn" or hflavour == "job-raises-stop":
                            out.append((kind, fails, maxc, None, 1, 2, hflavour, LONG, 0, "WARNING", _opts(rk=rk)))
        # one producer's finalize raises at once while the others' finalize really suspends: every finalize has COMPLETED
        # when run() ends
        for fails in (("fin0", None), (None, "fin0"), ("fin0", "main1")):
            for inject in (None, "stop", "cancel"):
                out.append((kind, fails, 1, inject, 1, 1, "plain", 0.03, 0, "WARNING", _opts(finsleep=0.01)))
        # a handler installs its own (chained) log record factory DURING the run and leaves it installed
        for fails in ((None, None), (None, "main1"), ("fin", None)):
            for inject in (None, "stop", "cancel"):
                out.append((kind, fails, 2, inject, 1, 1, "plain", 0.03, 0, "WARNING", _opts(inrun_factory=True)))
                out.append((kind, fails, 2, inject, 1, 1, "raises", 0.03, 0, "DEBUG", _opts(inrun_factory=True)))
        # logging
        for fails in ((None, None), ("init", None), (None, "main0"), ("fin", None)):
            for inject in (None, "stop", "cancel"):
                for nev in (0, 1):
                    out.append((kind, fails, 2, inject, 1 if nev else 0, nev, "raises" if nev else "plain", 0.03, 0, "DEBUG"))
                    # an application that installed its own log record factory before the run
                    out.append((kind, fails, 2, inject, 1 if nev else 0, nev, "raises" if nev else "plain", 0.03, 0,
                                "DEBUG" if nev else "WARNING", _opts(factory=True)))
        # two injections (quick: double cancellation only, within the first 150 loop steps)
        if tier == "quick":
            out.append((kind, (None, None), 1, "cancel+cancel", 1, 2, "plain", LONG, 0, "WARNING"))
        if tier == "thorough":
            for fails in itertools.product(FAILS, repeat=3):
                if sum(1 for f in fails if f) > 2:
                    continue
                for maxc in (1, 2):
                    for inject in (None, "stop", "cancel"):
                        out.append((kind, fails, maxc, inject, 1, 1, "plain", 0.03, 0, "WARNING"))
            for fails in ((None, None), (None, "main1"), ("init", None), ("fin", "fin")):
                for maxc in (1, 2):
                    for inject in ("stop+cancel", "cancel+cancel", "stop+stop"):
                        out.append((kind, fails, maxc, inject, 2, 2, "plain", 0.03, 0, "WARNING"))
                        out.append((kind, fails, maxc, inject, 1, 2, "plain", LONG, 0, "WARNING"))
    return out


def parse(sc):
    kind, fails, maxc, inject, njobs, nev, hflavour, hdur, nidle, loglevel = sc[:10]
    opts = dict(sc[10]) if len(sc) > 10 else {}
    return kind, fails, maxc, inject, njobs, nev, hflavour, hdur, nidle, loglevel, opts


def expected_work(sc):
    """(#event dispatches, #jobs) of a run that handles everything."""
    kind, fails, maxc, inject, njobs, nev, hflavour, hdur, nidle, loglevel, opts = parse(sc)
    late = 1 if opts.get("late") else 0
    return len(fails) * (nev + late), njobs + 2 * late


def make_run(sc, tier, states=None):
    kind, fails, maxc, inject, njobs, nev, hflavour, hdur, nidle, loglevel, opts = parse(sc)
    inject_steps = BOUNDS[tier]["inject_steps"]
    kinds = inject.split("+") if inject else []
    if len(kinds) > 1 and tier == "quick":
        inject_steps = 150
    late = bool(opts.get("late"))
    limit = opts.get("limit", 0.5)

    def run_one(ch):
        log = []
        d = bs.backtesting_dispatcher(maxc) if kind == "bt" else bs.realtime_dispatcher(maxc)
        d.stop_on_handler_exceptions = hflavour in ("raises-stop", "job-raises-stop")
        rk = opts.get("rk", "fn")
        entries = []
        state = {"task": None, "injected": [], "loop": None, "inj_time": None, "trigger": None}

        def lt():
            return state["loop"].time() if state["loop"] else 0.0

        def trigger():
            # the first moment from which the run has to end
            if state["trigger"] is None:
                state["trigger"] = lt()
        prods = [Prod(f"p{i}", f, log, i, lt, LONG * 4 if kind == "bt" else 0.3, trigger) for i, f in enumerate(fails)]
        for p_ in prods:
            p_.fin_sleep = opts.get("finsleep", 0.0)
        srcs = [bs.FifoQueueEventSource(producer=p, events=[bs.Event(T(0.0)) for _ in range(nev)] +
                                        ([bs.Event(T(LATE))] if late else [])) for p in prods]
        inflight = [0]
        maxin = [0]
        counts = collections.Counter()
        left = collections.Counter()   # (what, how it ended) -> n

        active = collections.Counter()  # event serial / job key -> running handlers
        idle_active = [0]
        serial = [0]

        def key_of(e):
            if not hasattr(e, "_vid"):
                serial[0] += 1
                e._vid = serial[0]
            return e._vid

        def enter(what, key):
            active[key] += 1
            inflight[0] = sum(1 for v in active.values() if v > 0)
            maxin[0] = max(maxin[0], inflight[0])
            counts[what] += 1
            entries.append(lt())
            log.append((what,))

        def leave(key, what, how):
            active[key] -= 1
            inflight[0] = sum(1 for v in active.values() if v > 0)
            left[(what, how)] += 1

        def mkh(what, raises=False, stops=False, dur=hdur):
            async def h(e):
                k = key_of(e)
                enter(what, k)
                if opts.get("inrun_factory") and what == "hb" and not state.get("inrun"):
                    # logging cookbook: add an attribute to every record, chaining to whatever factory is installed
                    prev = logging.getLogRecordFactory()

                    def their_factory(*args, **kwargs):
                        rec = prev(*args, **kwargs)
                        rec.their_tag = "theirs"
                        return rec
                    logging.setLogRecordFactory(their_factory)
                    state["inrun"] = True
                how = "cancelled"
                try:
                    if raises:
                        how = "raised"
                        if d.stop_on_handler_exceptions:
                            trigger()
                        raise ValueError("handler fails")
                    if stops:
                        trigger()
                        d.stop()
                    if dur:
                        await asyncio.sleep(dur)
                    how = "returned"
                finally:
                    leave(k, what, how)
            return as_kind(h, rk) if raises else h

        def mkjob(k):
            async def job():
                enter("job", ("job", k))
                how = "cancelled"
                try:
                    if hflavour in ("job-raises", "job-raises-stop") and k == 0:
                        how = "raised"
                        if d.stop_on_handler_exceptions:
                            trigger()
                        raise ValueError("job fails")
                    if hdur:
                        await asyncio.sleep(hdur if hdur >= LONG else min(hdur, 0.03))  # (long handlers => long jobs)
                    how = "returned"
                finally:
                    leave(("job", k), "job", how)
            return as_kind(job, rk) if k == 0 else job

        ha = mkh("ha", raises=hflavour in ("raises", "raises-stop", "raises-sniff"), stops=hflavour == "stops")
        hb = mkh("hb")
        for s in srcs:
            d.subscribe(s, ha)
            d.subscribe(s, hb)
        # catch-all handlers: the first of its stage raises at once, its sibling takes its time
        if hflavour == "pre-raises":
            d.subscribe_all(mkh("pre0", raises=True), front_run=True)
            d.subscribe_all(mkh("pre1"), front_run=True)
            d.subscribe_all(mkh("post0"))
        elif hflavour == "raises-sniff":
            d.subscribe_all(mkh("pre0"), front_run=True)
            d.subscribe_all(mkh("post0"))
        elif hflavour == "post-raises":
            d.subscribe_all(mkh("pre0"), front_run=True)
            d.subscribe_all(mkh("post0", raises=True))
            d.subscribe_all(mkh("post1"))
        for k in range(njobs):
            d.schedule(T(0.0), mkjob(k))
        if late:
            d.schedule(T(BEYOND), mkjob(njobs + 1))   # beyond the last event (not in heap order)
            d.schedule(T(LATE), mkjob(njobs))
        for k in range(nidle):
            async def idle(k=k):
                counts["idle"] += 1
                counts["idle%d" % k] += 1
                idle_active[0] += 1
                try:
                    if hflavour == "idle-raises" and k == 0 and counts["idle0"] == 1:
                        raise ValueError("idle handler fails")
                    await asyncio.sleep(IDLE_SLEEP)
                finally:
                    idle_active[0] -= 1
            d.subscribe_idle(idle)

        async def main():
            state["task"] = asyncio.current_task()
            if kind == "rt":
                async def limiter():
                    await asyncio.sleep(limit)
                    state["limited"] = True
                    log.append(("limiter-stop",))
                    trigger()
                    d.stop()
                state["limiter"] = asyncio.ensure_future(limiter())
            try:
                await d.run(stop_signals=[])
            finally:
                state["end_time"] = lt()
                state["log_len_at_end"] = len(log)
                if kind == "rt":
                    state["limiter"].cancel()

        async def outer():
            # main() is the caller's task (the one an injected cancellation hits); this wrapper only observes
            t = asyncio.ensure_future(main())
            await asyncio.wait([t])
            # a handler that was cancelled at the very end gets three loop steps to unwind (a dispatcher may cancel its
            # handlers without awaiting them); whoever is still between entry and exit then was neither awaited nor
            # cancelled by the dispatcher
            for _ in range(3):
                await asyncio.sleep(0)
            state["running_at_end"] = sorted(str(k) for k, v in active.items() if v > 0) + \
                (["idle"] if idle_active[0] > 0 else [])
            return await t

        def on_step(loop):
            state["loop"] = loop
            if states is not None:
                states.add(h64((len(log), inflight[0], len(state["injected"]), d.stopped)))
            k = len(state["injected"])
            if k < len(kinds) and state["task"] is not None and not state["task"].done() and loop.steps < inject_steps:
                if ch.choose(2, "inject"):
                    state["injected"].append(loop.steps)
                    if state["inj_time"] is None:
                        state["inj_time"] = loop.time()
                    trigger()
                    log.append(("inject", kinds[k]))
                    try:
                        if kinds[k] == "stop":
                            d.stop()
                        else:
                            state["task"].cancel()
                    except Exception as e:  # stop() itself must never fail (e.g. because logging does)
                        state["inject_exc"] = type(e).__name__ + ": " + str(e)[:60]

        # logging set-up
        root = logging.getLogger()
        cap = None
        old_level = root.level
        f_prev = logging.getLogRecordFactory()
        if opts.get("factory"):
            # an application that adds its own attribute to every record (logging cookbook) before the run
            def app_factory(*args, **kwargs):
                rec = f_prev(*args, **kwargs)
                rec.app_tag = "app"
                return rec
            logging.setLogRecordFactory(app_factory)
        f0 = logging.getLogRecordFactory()
        if loglevel == "DEBUG":
            cap = _Capture()
            root.addHandler(cap)
            root.setLevel(logging.DEBUG)
            logging.disable(logging.NOTSET)
        try:
            out, exc, loop = run_on_vloop(lambda loop: outer(), on_step=on_step,
                                          horizon=5.0 if kind == "rt" else None, max_steps=20000)
        finally:
            logging.disable(logging.CRITICAL)
            if cap is not None:
                root.removeHandler(cap)
                root.setLevel(old_level)
        f1 = logging.getLogRecordFactory()
        log_after = "ok"
        if f1 is not f0 and not state.get("inrun"):
            # (a factory that the application installed DURING the run may stay or go: the statement only says that
            # logging behaves as before the run, i.e. without simulated timestamps and without failing)
            log_after = "factory-not-restored"
        try:
            rec = f1("verif", logging.WARNING, __file__, 1, "after run", (), None)
            if abs(rec.created - time.time()) > 3600:
                log_after = "simulated-timestamp-after-run"
            if opts.get("factory"):
                # what the application's formatter does with every record
                if logging.Formatter("[%(app_tag)s] %(message)s").format(rec) != "[app] after run":
                    log_after = "application-record-attribute-lost"
        except Exception as e:  # noqa
            log_after = "logging-raises:" + type(e).__name__
        logging.setLogRecordFactory(f_prev)
        if out == "raised":
            out = "producer-error" if any(exc is p.exc for p in prods) else "raised:" + type(exc).__name__
        errs = [str(c.get("message"))[:50] for c in loop.errors]
        return dict(out=out, log=log, maxin=maxin[0], injected=state["injected"], steps=loop.end_steps,
                    end_time=state.get("end_time", loop.time()), inj_time=state["inj_time"], limited=bool(state.get("limited")),
                    counts=dict(counts), errs=errs, log_after=log_after, inject_exc=state.get("inject_exc"),
                    trigger=state["trigger"], last_entry=max(entries) if entries else None, running_at_end=state.get("running_at_end", []),
                    left={f"{w}:{h}": n for (w, h), n in sorted(left.items())},
                    log_len_at_end=state.get("log_len_at_end", len(log)))
    return run_one


SNIFFERS = {"pre-raises": ("pre0", "pre1", "post0"), "post-raises": ("pre0", "post0", "post1"),
            "raises-sniff": ("pre0", "post0")}
STOPPING = ("stops", "raises-stop", "job-raises-stop")


def oracle(sc, r):
    kind, fails, maxc, inject, njobs, nev, hflavour, hdur, nidle, loglevel, opts = parse(sc)
    bad = []
    log = r["log"]
    n = len(fails)
    exp_ev, exp_jobs = expected_work(sc)
    inits_end = [i for i, x in enumerate(log) if x[0] == "init-end"]
    mains = [i for i, x in enumerate(log) if x[0] == "main-start"]
    if mains and (len(inits_end) < n or min(mains) < max(inits_end)):
        bad.append(("main-before-init", "a producer's main started before every producer was initialised"))
    fins = collections.Counter(x[1] for x in log if x[0] == "fin")
    # finalize has COMPLETED when run() ends (what the log held at that moment), not some time later
    fin_ends = collections.Counter(x[1] for x in log[:r["log_len_at_end"]] if x[0] == "fin-end")
    for i in range(n):
        if fins[f"p{i}"] != 1:
            bad.append(("finalize-count", f"producer p{i} finalised {fins[f'p{i}']}x"))
        elif fin_ends[f"p{i}"] != 1:
            bad.append(("finalize-interrupted", f"producer p{i}'s finalize had not run to completion when run() ended"))
    if r["maxin"] > maxc:
        bad.append(("pool-overflow", f"{r['maxin']} events/jobs in flight with max_concurrent={maxc}"))
    out = r["out"]
    injected = [x[1] for x in log if x[0] == "inject"]
    allowed = {"returned"}
    if any(f in ("init", "main0", "main1") for f in fails):
        allowed.add("producer-error")
    if "cancel" in injected:
        allowed.add("cancelled")
    if out not in allowed:
        if out == "horizon" and kind == "rt":
            bad.append(("not-prompt", "run still going at the horizon (5 virtual s) after stop/cancel/failure"))
        else:
            bad.append(("outcome", f"run ended with {out}, allowed {sorted(allowed)}"))
    elif injected and out == "returned" and injected == ["cancel"] and not r["limited"] and hflavour not in STOPPING \
            and not any(f in ("init", "main0", "main1", "mainret") for f in fails):
        # a cancelled run that nobody stopped must not pretend it returned normally. (Backtesting: unless everything had
        # been handled already, i.e. the cancellation arrived when the run was over anyway.)
        c = r["counts"]
        unfinished = kind == "rt" or c.get("ha", 0) < exp_ev or c.get("job", 0) < exp_jobs
        if unfinished and hdur < 1:
            bad.append(("cancel-swallowed", "run() returned normally although the caller cancelled it before it was over "
                        "and nobody stopped it"))
    # promptness: handlers in flight are cancelled, not awaited - whatever asked the run to end
    if r["trigger"] is not None and out in ("returned", "cancelled", "producer-error"):
        if r["end_time"] - r["trigger"] > 1.0:
            bad.append(("not-prompt", f"run ended {r['end_time'] - r['trigger']:.2f} virtual s after it had to end "
                        "(injected fault / stop() / handler error with stop-on-error / producer failure)"))
    # ... and nothing new is started once the run has to end (stop-on-error set => the first failing handler / job is the
    # last thing that starts at a later instant; the same after stop(), a cancellation, a producer failure)
    if r["trigger"] is not None and r["last_entry"] is not None and r["last_entry"] > r["trigger"] + 1e-9:
        bad.append(("started-after-stop", f"a handler / job was started at {r['last_entry']:.3f} virtual s although the run "
                    f"had to end at {r['trigger']:.3f} (stop() / stop-on-error / cancellation / producer failure)"))
    if r["running_at_end"] and out in ("returned", "cancelled", "producer-error"):
        bad.append(("orphan-handler", f"handlers of {r['running_at_end']} were still running when run() ended (neither "
                    "awaited nor cancelled)"))
    if r["inject_exc"]:
        bad.append(("stop-raises", f"stop() raised {r['inject_exc']}"))
    if r["log_after"] != "ok":
        bad.append(("logging", r["log_after"]))
    if r["errs"]:
        bad.append(("loop-error", f"the event loop's exception handler was called: {r['errs'][0]}"))
    # fault isolation: in an undisturbed run everything is handled although a handler / job / idle handler raises
    undisturbed = not injected and not any(fails) and hflavour not in STOPPING
    if undisturbed and out == "returned" and hdur < 1:
        c = r["counts"]
        if c.get("ha", 0) != exp_ev or c.get("hb", 0) != exp_ev:
            bad.append(("fault-isolation", f"handlers ran {c.get('ha', 0)}/{c.get('hb', 0)} times for {exp_ev} events"))
        for sname in SNIFFERS.get(hflavour, ()):
            if c.get(sname, 0) != exp_ev:
                bad.append(("fault-isolation", f"catch-all handler {sname} ran {c.get(sname, 0)} times for {exp_ev} events"))
        if c.get("job", 0) != exp_jobs:
            bad.append(("fault-isolation", f"{c.get('job', 0)} of {exp_jobs} jobs ran"))
        # ... and, when one of them raises, the others RUN, i.e. to their end (a sibling / later handler that the dispatcher
        # cancels half-way has been prevented from running). Judged only where something raises: what the dispatcher does
        # to handlers in a run without any failure is not part of the statement.
        cancelled = {k: v for k, v in r["left"].items() if k.endswith(":cancelled")}
        if cancelled and hflavour in ("raises", "raises-sniff", "job-raises", "pre-raises", "post-raises", "idle-raises"):
            bad.append(("fault-isolation", f"a handler raised and other handlers were cancelled although nobody stopped "
                        f"the run: {cancelled}"))
    return bad


def run_scenario(sc, tier):
    res = Result()
    bound = 2 if (sc[3] and "+" in sc[3]) else 1
    first = True
    for choices, tr, r in explore(make_run(sc, tier, res.states), bound, cost=lambda tag, c: c):
        if sc[3] and "+" in sc[3] and len(r["injected"]) == 1:
            pass  # single injection of a pair scenario: also legitimate, checked with the same oracle
        res.executions += 1
        res.extra["runs_longer_than_injection_window"] += 0
        if first and sc[3] and r["steps"] >= (150 if ("+" in sc[3] and tier == "quick") else BOUNDS[tier]["inject_steps"]):
            res.extra["runs_longer_than_injection_window"] += 1
        res.transitions += r["steps"]
        res.outcomes[(sc[0], sc[3], r["out"])] += 1
        if any(x[0] == "main-start" for x in r["log"]):
            res.nontrivial.add(h64((sc, tuple(r["log"]), r["out"])))
        bad = oracle(sc, r)
        if first or bad:
            r2 = make_run(sc, tier)(Chooser(choices))
            # (the number of loop steps is not compared: asyncio.wait() iterates a set of tasks in address order)
            if (r2["log"], r2["out"]) != (r["log"], r["out"]):
                raise RuntimeError(f"HARNESS-NONDETERMINISM scenario={sc} choices={choices}")
            res.validated += 1
        if first:
            res.samples.append(dict(scenario=repr(sc), injected_at_steps=r["injected"], log=[list(x) for x in r["log"]],
                                    outcome=r["out"]))
            first = False
        for clause, detail in bad:
            res.violation(f"{PROPERTY}:{clause}:{sc[0]}", f"{detail}; scenario={sc} injected_at={r['injected']} "
                          f"steps={r['steps']}", dict(scenario=list(sc), choices=choices, tier=tier),
                          size=len(sc[1]) * 1000 + sum(1 for f in sc[1] if f) * 100 + (r["injected"][0] if r["injected"] else 0))
    return res


def _tuplify(x):
    return tuple(_tuplify(y) for y in x) if isinstance(x, (list, tuple)) else x


def replay(rep):
    s = rep["scenario"]
    sc = (s[0], tuple(s[1])) + tuple(s[2:10]) + ((_tuplify(s[10]),) if len(s) > 10 else ())
    r = make_run(sc, rep.get("tier", "quick"))(Chooser(rep["choices"]))
    print("scenario:", sc)
    for x in r["log"]:
        print("  ", x)
    print({k: v for k, v in r.items() if k != "log"})
    return [f"{c}: {d}" for c, d in oracle(sc, r)]

"""C06 - funds on hold exactly cover open orders (DESIGN.md section 3, C06): BFS over operation histories of the real exchange."""
from decimal import Decimal as D

from checks import _exch_common as X
from mc.framework import h64

PROPERTY = "C06"
RULE = ("state = canonical key of the real exchange reached by an operation history (balances, holds, borrowed, open "
        "orders, open loans, last closes, re-index phase); transitions = every action of the configuration's alphabet "
        "(bars, market/limit/stop/stop-limit orders with and without auto-borrow/auto-repay, cancels, loans, repayments, "
        "invalid requests) from every state up to the depth; the reservation-table oracle runs on every transition. Distinct = "
        "distinct states; non-trivial = reached by a transition that produced order events, a rejection or a loan.")
ASSUMPTIONS = [
    "amounts 1..5 units (x10 in K29), price grid {30,33.37,90,100,110,300}, volumes giving 0/1/2.5/2.75/3/4/10 units of liquidity; configurations of "
    "checks/_exch_common.py (fee x liquidity x lending x precision x initial balances x 1-2 pairs)",
    "acceptance boundary: every order type x side x 1/3/7/123456789/1e9 units x awkward prices x with/without a last price x 7 fee schemes x 4-6 precisions, no borrowing",
    "strategy actions are issued after at least one bar (orders placed before the first event are a separate scenario)",
    "the synchronous driver is validated against the public-API driver on all short histories (conformance scenarios) "
    "and on every reported violation",
]
SPEC = {
    'quick': [('lasso', 'K5', 'pairs2', 2, 60),
              ('K23', 'liq', 4),
              ('K27', 'small', 3),
              ('K0p', 'small', 3),
              ('K1', 'ar', 7),
              ('K0', 'std', 3),
              ('K0', 'small', 4),
              ('K1', 'std', 3),
              ('K0', 'liq', 4),
              ('K10', 'lend', 4),
              ('K11', 'small', 4),
              ('lasso', 'K1', 'small', 2, 6)],
    'conf_quick': [('K1', 3)],
    'conf_thorough': [('K1', 3), ('K10', 3)],
}
SPEC['thorough'] = X.thorough_spec(SPEC['quick'], [('K10', 'lend'), ('K13', 'lend')])
BOUNDS = {t: dict(spec=SPEC[t]) for t in ("quick", "thorough")}
EXPLANATION = ("explicit-state BFS over operation histories with state de-duplication; every transition executes the "
               "real exchange; traces_validated_against_impl = histories executed through BOTH drivers (sync and "
               "public API under a real dispatcher) with identical complete observable state")


def scenarios(tier, seed):
    out = X.plan(PROPERTY, tier, SPEC)
    precisions = ((0, 2), (1, 0), (2, 2), (8, 8)) if tier == "quick" else ((0, 2), (1, 0), (2, 2), (8, 8), (0, 0), (3, 5))
    for bp, qp in precisions:
        for fee in FEES:
            out.append(("boundary", bp, qp, fee))
    return out


# ---- acceptance boundary (no borrowing): accepted with exactly the reservation available, rejected with one unit less
FEES = (None, (1, 0), ("0.25", 2), (50, 0), (0, 5), ("2.5", "0.01"), ("99.99", 0))
PRICES = ("33.337", "100", "0.00000123", "10.10", "1234.5678", "0.07")
UNITS = (1, 3, 7, 123456789, 10 ** 9)  # large amounts: a relative tolerance would exceed one precision unit


def _attempt(init, kind, side, amt, lim, stp, close, fee, bp, qp):
    import basana as bs
    from basana.backtesting import exchange as ex, fees, liquidity, errors
    from worlds import exch as _exch
    from worlds.exch import PAIRS, T, call, SIDE
    _exch.set_step({})
    P = PAIRS[0]
    d = bs.backtesting_dispatcher()
    e = ex.Exchange(d, dict(init), fee_strategy=fees.NoFee() if fee is None else fees.Percentage(D(str(fee[0])), D(str(fee[1]))),
                    liquidity_strategy_factory=liquidity.InfiniteLiquidity)
    e.add_bar_source(bs.FifoQueueEventSource())
    e.set_pair_info(P, bs.PairInfo(bp, qp))
    e.set_symbol_precision("BTC", bp)
    e.set_symbol_precision("USD", qp)
    d._set_now(T(1))
    if close is not None:
        call(e._on_bar_event(bs.BarEvent(T(1), bs.Bar(T(0), P, close, close, close, close, D(10)))))
    op = SIDE[side]
    try:
        if kind == "mkt":
            call(e.create_market_order(op, P, amt))
        elif kind == "lim":
            call(e.create_limit_order(op, P, amt, lim))
        elif kind == "stp":
            call(e.create_stop_order(op, P, amt, stp))
        else:
            call(e.create_stop_limit_order(op, P, amt, stp, lim))
        ok = True
    except errors.Error:  # whatever error class the exchange chooses to refuse a request with
        ok = False
    bal = call(e.get_balances())
    return ok, {k: v.hold for k, v in bal.items() if v.hold}


def _boundary(sc, res):
    from worlds.exch_monitors import reservation, q
    _, bp, qp, fee = sc
    ub, uq = D(1).scaleb(-bp), D(1).scaleb(-qp)
    prices = sorted(set(q(D(p), qp) for p in PRICES) - {D(0)})
    cfg = dict(bp=bp, qp=qp, fee=fee)
    for kind in ("mkt", "lim", "stp", "sl"):
        for side in ("B", "S"):
            for units in UNITS:
                amt = units * ub
                for price in prices:
                    for close in (prices[0], prices[-1], None) + ((("other-stop",),) if kind == "sl" else ()):
                        lim = price if kind in ("lim", "sl") else None
                        stp = price if kind in ("stp", "sl") else None
                        if close == ("other-stop",):
                            # a stop-limit order reserves at its LIMIT price, whatever the stop price is
                            stp = prices[0] if price != prices[0] else prices[-1]
                            close = prices[0]
                        m = dict(kind=kind, side=side, pair=0, amt=amt, lim=lim, stp=stp, close_at_accept=close)
                        R = {k: v for k, v in reservation(cfg, m).items() if v}
                        case = dict(kind="boundary", bp=bp, qp=qp, fee=fee, order=[kind, side, str(amt), str(lim), str(stp)],
                                    last_close=str(close), reservation={k: str(v) for k, v in R.items()})
                        ok, holds = _attempt(R, kind, side, amt, lim, stp, close, fee, bp, qp)
                        res.executions += 1
                        res.transitions += 1
                        res.states.add(h64(("b", bp, qp, fee, kind, side, units, price, close)))
                        if R:
                            res.nontrivial.add(h64(("b", bp, qp, fee, kind, side, units, price, close)))
                        if not ok:
                            res.violation(f"{PROPERTY}:boundary-rejected-with-exact-funds:{kind}",
                                          f"request rejected although exactly the reservation {R} is available; {case}", case, 1)
                        elif holds != R:
                            res.violation(f"{PROPERTY}:boundary-hold-differs:{kind}",
                                          f"accepted order holds {holds}, the statement's reservation is {R}; {case}", case, 1)
                        for sym, val in R.items():
                            less = dict(R)
                            less[sym] = val - (ub if sym == "BTC" else uq)
                            ok2, _ = _attempt(less, kind, side, amt, lim, stp, close, fee, bp, qp)
                            res.executions += 1
                            res.transitions += 1
                            if ok2:
                                c2 = dict(case, short_of=sym)
                                res.violation(f"{PROPERTY}:boundary-accepted-one-unit-short:{kind}",
                                              f"request accepted with one precision unit of {sym} less than its reservation "
                                              f"{R}; {case}", c2, 1)
    if not res.samples:
        res.samples.append(case)
    res.outcomes[("boundary", "done")] += 1
    return res


def run_scenario(sc, tier):
    if sc[0] == "boundary":
        from mc.framework import Result
        return _boundary(sc, Result())
    return X.run_scenario(PROPERTY, sc, tier)


def replay(rep):
    if rep.get("kind") == "boundary":
        from mc.framework import Result
        res = _boundary(("boundary", rep["bp"], rep["qp"], tuple(rep["fee"]) if rep["fee"] else None), Result())
        return [v["message"] for v in res.violations][:5]
    return X.replay(PROPERTY, rep)

"""C15 - realtime dispatcher: nothing early, everything due is dispatched, per-source order, idle handlers (DESIGN.md 4).

Real RealtimeDispatcher on the virtual loop. The library's own clock function (basana.core.dt.utc_now) runs: the virtual
clock is substituted underneath it (worlds/dsp.py), and part of the scenarios run with the process's local time zone east /
west of UTC. Every arrival pattern of <= 3 (quick) / <= 4 (thorough) events over 2 sources (push instant x timestamp
offset: past / now / future by 2.5 poll periods, so events older than their predecessor are in the alphabet), scheduled jobs
(past, now, future, far beyond the end of the run; two and three jobs at exactly the same instant; every 3- and 4-tuple of
job times = every insertion order; jobs scheduled from an event handler and from another job), front-running and trailing
catch-all handlers, 0-2 idle handlers, max_concurrent 1/2/50, and every assignment of handler durations {0, half a poll
period, 3.5 poll periods} chosen by the explorer.
"""
import asyncio
import itertools

import basana as bs

from mc.chooser import Chooser, explore
from mc.framework import Result, h64
from worlds.dsp import T, local_tz, run_on_vloop, secs

PROPERTY = "C15"
RULE = ("scenario = (arrivals (source, push instant, timestamp offset), job times in insertion order, max_concurrent, #idle "
        "handlers, time-zone mix of the timestamps, options: local time zone of the process / catch-all handlers / jobs "
        "scheduled from handlers and jobs); per scenario every assignment of handler durations (chooser, exhaustive for "
        "<=3 arrivals+jobs, deviation bound otherwise) runs on the real dispatcher under a virtual clock. Distinct = "
        "distinct (scenario, dispatch trace); non-trivial = at least two dispatches.")
ASSUMPTIONS = [
    "virtual clock substituted UNDERNEATH basana.core.dt.utc_now (datetime.now / utcnow / time.time as seen by "
    "basana.core.dt and basana.core.dispatcher) and for the event loop clock; poll period 0.01 s as configured",
    "arrival instants {0, 1.5, 3} poll periods, timestamps = arrival instant + {-2, 0, +2.5} poll periods",
    "job times {-1, 0, 0.02, 0.045, 3600} s relative to the start; a job for 3600 s must not run during the 0.3 s of the run",
    "bounded liveness: everything due before 0.1 s must have been dispatched when the run is stopped at 0.3 s",
    "local time zones of the process: unset (UTC), JST-9, EST5 (POSIX TZ strings)",
    "catch-all handlers do not suspend; how a handler ends (returns / is cancelled) is not part of the statement",
]
BOUNDS = {"quick": dict(max_arrivals=3, max_jobs=4, deviation_bound=1),
          "thorough": dict(max_arrivals=4, max_jobs=4, deviation_bound=2)}
EXPLANATION = ("implementation-level model checking on a virtual clock; traces_validated_against_impl counts executions "
               "re-run from their recorded choices with identical observations")
PUSH_AT = (0.0, 0.015, 0.03)
OFFS = (-0.02, 0.0, 0.025)
DURS = (0.0, 0.005, 0.035)
STOP_AT = 0.3
DUE_BEFORE = 0.1
JOB_TIMES = (-1.0, 0.0, 0.02, 0.045, 3600.0)
LOCAL_TZS = ("JST-9", "EST5")
import datetime as _dt  # noqa: E402
TZS = (_dt.timezone(_dt.timedelta(hours=-5)), _dt.timezone(_dt.timedelta(hours=5, minutes=30)), _dt.timezone.utc)


def _opts(**kw):
    return tuple(sorted(kw.items()))


def scenarios(tier, seed):
    out = []
    alpha = [(si, at, off) for si in (0, 1) for at in PUSH_AT for off in OFFS]
    jobsets = ((), (0.02, 0.0), (-1.0, 0.045))
    for na in (1, 2):
        for arrivals in itertools.product(alpha, repeat=na):
            if list(a[1] for a in arrivals) != sorted(a[1] for a in arrivals):
                continue  # arrivals are listed in push order
            for jobs in (jobsets if (na == 1 or tier == "thorough") else jobsets[:2]):
                for maxc in (1, 2, 50):
                    for nidle in ((0, 1, 2) if (na == 1 or tier == "thorough") else (0, 1)):
                        if nidle == 2 and maxc == 50:
                            continue
                        out.append((arrivals, jobs, maxc, nidle))
                        if jobs and maxc == 2 and nidle == 0:
                            out.append((arrivals, jobs, maxc, nidle, True))
            if na == 1:
                # distinct jobs for exactly the same instant (also: the same instant expressed in different time zones)
                for jobs in ((0.02, 0.02), (0.0, 0.0, 0.0)):
                    for maxc in (1, 2, 50):
                        out.append((arrivals, jobs, maxc, 0))
                        out.append((arrivals, jobs, maxc, 1, True))
                # the library's own clock function under a local time zone east / west of UTC
                for tz in LOCAL_TZS:
                    out.append((arrivals, (0.02, 0.0), 2, 0, False, _opts(tz=tz)))
                # jobs scheduled while running: from the handler of the arrival, from job 0 / job 1 (relative to that instant)
                for dyn in ((("ev0", 0.0),), (("ev0", 0.02), ("ev0", 0.02)), (("job0", 0.0), ("job1", 0.02)),
                            (("job0", 0.02), ("ev0", 3600.0))):
                    for maxc in (1, 2):
                        out.append((arrivals, (0.02, 0.0), maxc, 0, False, _opts(dyn=dyn)))
            if na == 2:
                # catch-all handlers (front-running and trailing) next to the sources' handlers
                out.append((arrivals, (), 2, 0, False, _opts(sniff=True)))
    # three and four jobs in every insertion order (heap shapes), including far-future ones
    for nj in (3, 4):
        for jobs in itertools.product(JOB_TIMES, repeat=nj):
            if nj == 3:
                for maxc in (1, 2):
                    out.append(((), jobs, maxc, 0))
                out.append((((0, 0.015, 0.0),), jobs, 1, 0))
            elif len(set(jobs)) >= 3 or tier == "thorough":
                out.append(((), jobs, 2, 0))
    # three arrivals on (mostly) one source: out-of-order chains
    alpha3 = [(si, at, off) for si in (0, 1) for at in PUSH_AT for off in OFFS]
    for arrivals in itertools.product(alpha3, repeat=3):
        if list(a[1] for a in arrivals) != sorted(a[1] for a in arrivals):
            continue
        if sum(1 for a in arrivals if a[0] == 0) < 2:
            continue
        out.append((arrivals, (), 2, 0, False, _opts(sniff=True)))
        out.append((arrivals, (0.02, 0.0), 1, 1))
    if tier == "thorough":
        for arrivals in itertools.product(alpha3, repeat=4):
            if list(a[1] for a in arrivals) != sorted(a[1] for a in arrivals):
                continue
            if sum(1 for a in arrivals if a[0] == 0) < 3:
                continue
            for jobs, maxc, nidle in (((), 1, 0), ((0.02, 0.0), 2, 1)):
                out.append((arrivals, jobs, maxc, nidle))
    return out


def parse(sc):
    arrivals, jobs, maxc, nidle = sc[:4]
    tzmix = len(sc) > 4 and bool(sc[4])
    opts = dict(sc[5]) if len(sc) > 5 else {}
    return arrivals, jobs, maxc, nidle, tzmix, opts


def make_run(sc, states=None):
    arrivals, jobs, maxc, nidle, tzmix, opts = parse(sc)
    dyn = opts.get("dyn", ())
    sniff = opts.get("sniff", False)

    def run_one(ch):
        d = bs.realtime_dispatcher(max_concurrent=maxc)
        srcs = [bs.FifoQueueEventSource(), bs.FifoQueueEventSource()]
        trace = []
        active = [0]
        errors = []
        d.on_error = lambda e: errors.append(str(getattr(e, "message", e))[:40])
        holder = {}

        def now():
            return holder["loop"].time()

        def note():
            if states is not None:
                states.add(h64((tuple(trace), active[0])))

        async def work(tag):
            k = ch.choose(len(DURS), "dur:" + tag)
            if DURS[k]:
                await asyncio.sleep(DURS[k])

        def schedule_dynamic(origin):
            for k, (org, rel) in enumerate(dyn):
                if org == origin:
                    due = round(now() + rel, 6)
                    trace.append(("sched", k, round(now(), 6), due))

                    async def dj(k=k, due=due):
                        active[0] += 1
                        trace.append(("dynjob", k, round(now(), 6), due))
                        note()
                        try:
                            await work("dyn")
                        finally:
                            active[0] -= 1
                    d.schedule(T(due), dj)

        def mkh(si):
            async def h(e):
                active[0] += 1
                trace.append(("ev", si, e._tag, round(now(), 6), round(secs(e.when), 6)))
                schedule_dynamic("ev%d" % e._tag)
                note()
                try:
                    await work("ev")
                finally:
                    active[0] -= 1
            return h

        def mkall(stage):
            async def h(e):
                trace.append(("all", stage, e._src, e._tag, round(now(), 6), round(secs(e.when), 6)))
            return h

        for si, s in enumerate(srcs):
            d.subscribe(s, mkh(si))
        if sniff:
            d.subscribe_all(mkall("pre"), front_run=True)
            d.subscribe_all(mkall("post"))
        for ji, jt in enumerate(jobs):
            async def j(ji=ji, jt=jt):
                active[0] += 1
                trace.append(("job", ji, round(now(), 6), jt))
                schedule_dynamic("job%d" % ji)
                note()
                try:
                    await work("job")
                finally:
                    active[0] -= 1
            # the same instant expressed in another time zone (west / east of UTC, alternating): instants, not labels, count
            d.schedule(T(jt).astimezone(TZS[ji % len(TZS)]) if tzmix else T(jt), j)
        for k in range(nidle):
            async def idle(k=k):
                trace.append(("idle", k, round(now(), 6), active[0]))
                await asyncio.sleep(0.004)
            d.subscribe_idle(idle)

        async def driver():
            for n, (si, at, off) in enumerate(arrivals):
                if at > now():
                    await asyncio.sleep(at - now())
                when = T(now() + off)
                e = bs.Event(when.astimezone(TZS[n % len(TZS)]) if tzmix else when)
                e._tag = n
                e._src = si
                srcs[si].push(e)
                trace.append(("push", si, n, round(now(), 6), round(now() + off, 6)))
            await asyncio.sleep(STOP_AT - now())
            trace.append(("stop", round(now(), 6)))
            d.stop()

        async def main():
            await asyncio.gather(d.run(stop_signals=[]), driver())

        def on_step(loop):
            holder["loop"] = loop

        with local_tz(opts.get("tz")):
            out, exc, loop = run_on_vloop(lambda loop: holder.setdefault("loop", loop) and main(), on_step=on_step,
                                          horizon=5.0, max_steps=100000)
        if exc is not None:
            out = "raised:" + type(exc).__name__
        return dict(out=out, trace=trace, errors=errors, seam=loop.clock_seam)
    return run_one


def oracle(sc, r):
    arrivals, jobs, maxc, nidle, tzmix, opts = parse(sc)
    bad = []
    if r["out"] != "returned":
        bad.append(("run-outcome", r["out"]))
        return bad
    tr = r["trace"]
    stop_t = next((x[1] for x in tr if x[0] == "stop"), STOP_AT)
    for x in tr:
        if x[0] == "ev" and x[3] < x[4] - 1e-9:
            bad.append(("event-early", f"event stamped {x[4]} dispatched at {x[3]}"))
        if x[0] == "all" and x[4] < x[5] - 1e-9:
            bad.append(("event-early", f"event stamped {x[5]} given to a catch-all handler at {x[4]}"))
        if x[0] in ("job", "dynjob") and x[2] < x[3] - 1e-9:
            bad.append(("job-early", f"job scheduled for {x[3]} ran at {x[2]}"))
        if x[0] == "idle" and x[3] != 0:
            bad.append(("idle-while-busy", f"idle handler started at {x[2]} with {x[3]} handlers active"))
    pushes = [x for x in tr if x[0] == "push"]
    n_dropped = 0
    for si in (0, 1):
        last = None
        expect = []
        for p in [p for p in pushes if p[1] == si]:
            if last is not None and p[4] < last - 1e-12:
                n_dropped += 1
                continue
            last = p[4]
            expect.append(p[2])
        points = [("handler", [(x[2], x[3], x[4]) for x in tr if x[0] == "ev" and x[1] == si])]
        if opts.get("sniff"):
            for stage in ("pre", "post"):
                points.append((stage + " catch-all handler",
                               [(x[3], x[4], x[5]) for x in tr if x[0] == "all" and x[1] == stage and x[2] == si]))
        for name, recs in points:
            got = [tag for (tag, at, when) in recs if at < stop_t]
            # events are handled concurrently: the trailing catch-all handlers get an event when ITS handlers are done,
            # so only what they receive is checked there, not in which order
            ordered = not name.startswith("post")
            if (got != expect) if ordered else (sorted(got) != sorted(expect)):
                clause = "delivery"
                if len(got) != len(set(got)):
                    clause = "delivered-twice"
                elif set(got) - set(expect):
                    clause = "out-of-order-delivered"
                elif set(expect) - set(got):
                    clause = "not-delivered"
                else:
                    clause = "source-order"
                bad.append((clause, f"source {si} ({name}): delivered {got}, expected {expect}"))
            times = [when for (tag, at, when) in recs]
            if ordered and times != sorted(times):
                bad.append(("source-order", f"source {si} ({name}): delivered timestamps {times}"))
    if len(r["errors"]) != n_dropped:
        bad.append(("drop-not-reported", f"{n_dropped} out-of-order events but {len(r['errors'])} error reports"))
    for ji, jt in enumerate(jobs):
        n = sum(1 for x in tr if x[0] == "job" and x[1] == ji)
        want = 1 if jt <= DUE_BEFORE else 0 if jt >= STOP_AT else None
        if want is not None and n != want:
            bad.append(("job-count", f"job {ji}@{jt} ran {n}x"))
    for x in tr:
        if x[0] == "sched":
            n = sum(1 for y in tr if y[0] == "dynjob" and y[1] == x[1])
            want = 1 if x[3] <= DUE_BEFORE else 0 if x[3] >= STOP_AT else None
            if want is not None and n != want:
                bad.append(("job-count", f"job scheduled at {x[2]} for {x[3]} (while running) ran {n}x"))
    return bad


def run_scenario(sc, tier):
    res = Result()
    bound = None if len(sc[0]) + len(sc[1]) <= 3 and not (len(sc) > 5 and dict(sc[5]).get("dyn")) \
        else BOUNDS[tier]["deviation_bound"]
    first = True
    for choices, tr, r in explore(make_run(sc, res.states), bound):
        res.executions += 1
        res.transitions += len(tr) + 1
        res.outcomes[r["out"]] += 1
        res.extra["clock_seam_" + str(r["seam"])] += 1
        if sum(1 for x in r["trace"] if x[0] in ("ev", "job", "dynjob")) >= 2:
            res.nontrivial.add(h64((sc, tuple(r["trace"]))))
        bad = oracle(sc, r)
        if first or bad:
            r2 = make_run(sc)(Chooser(choices))
            if r2 != r:
                raise RuntimeError(f"HARNESS-NONDETERMINISM scenario={sc} choices={choices}")
            res.validated += 1
        if first:
            res.samples.append(dict(scenario=repr(sc), choices=choices, trace=[list(x) for x in r["trace"]],
                                    errors=r["errors"]))
            first = False
        for clause, detail in bad:
            res.violation(f"{PROPERTY}:{clause}", f"{detail}; scenario={sc} choices={choices}",
                          dict(scenario=[list(map(list, sc[0])), list(sc[1]), sc[2], sc[3], len(sc) > 4 and sc[4],
                                         list(sc[5]) if len(sc) > 5 else []], choices=choices),
                          size=100 * (len(sc[0]) + len(sc[1])) + 10 * sc[3] + sum(1 for c in choices if c))
    return res


def _tuplify(x):
    return tuple(_tuplify(y) for y in x) if isinstance(x, (list, tuple)) else x


def replay(rep):
    s = rep["scenario"]
    sc = (tuple(tuple(a) for a in s[0]), tuple(s[1]), s[2], s[3], bool(s[4]) if len(s) > 4 else False,
          _tuplify(s[5]) if len(s) > 5 else ())
    r = make_run(sc)(Chooser(rep["choices"]))
    print("scenario:", sc)
    for x in r["trace"]:
        print("  ", x)
    print("outcome:", r["out"], r["errors"])
    return [f"{c}: {d}" for c, d in oracle(sc, r)]

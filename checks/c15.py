"""C15 - realtime dispatcher: nothing early, everything due is dispatched, per-source order, idle handlers (DESIGN.md 4).

Real RealtimeDispatcher on the virtual loop with a virtual utc_now(). Every arrival pattern of <= 3 (quick) / <= 4
(thorough) events over 2 sources (push instant x timestamp offset: past / now / future by 2.5 poll periods, so events older
than their predecessor are in the alphabet), scheduled jobs (past, now, future), 0-2 idle handlers, max_concurrent
1/2/50, and every assignment of handler durations {0, half a poll period, 3.5 poll periods} chosen by the explorer.
"""
import asyncio
import itertools

import basana as bs

from mc.chooser import Chooser, explore
from mc.framework import Result, h64
from worlds.dsp import T, run_on_vloop, secs

PROPERTY = "C15"
RULE = ("scenario = (arrivals (source, push instant, timestamp offset), job times, max_concurrent, #idle handlers); per "
        "scenario every assignment of handler durations (chooser, exhaustive for <=2 arrivals, deviation bound "
        "otherwise) runs on the real dispatcher under a virtual clock. Distinct = distinct (scenario, dispatch trace); "
        "non-trivial = at least two dispatches.")
ASSUMPTIONS = [
    "virtual clock substituted for basana.core.dt.utc_now and the event loop clock; poll period 0.01 s as configured",
    "arrival instants {0, 1.5, 3} poll periods, timestamps = arrival instant + {-2, 0, +2.5} poll periods",
    "bounded liveness: everything due before 0.1 s must have been dispatched when the run is stopped at 0.3 s",
]
BOUNDS = {"quick": dict(max_arrivals=3, deviation_bound=1), "thorough": dict(max_arrivals=4, deviation_bound=2)}
EXPLANATION = ("implementation-level model checking on a virtual clock; traces_validated_against_impl counts executions "
               "re-run from their recorded choices with identical observations")
PUSH_AT = (0.0, 0.015, 0.03)
OFFS = (-0.02, 0.0, 0.025)
DURS = (0.0, 0.005, 0.035)
STOP_AT = 0.3
import datetime as _dt  # noqa: E402
TZS = (_dt.timezone(_dt.timedelta(hours=-5)), _dt.timezone(_dt.timedelta(hours=5, minutes=30)), _dt.timezone.utc)


def scenarios(tier, seed):
    out = []
    alpha = [(si, at, off) for si in (0, 1) for at in PUSH_AT for off in OFFS]
    jobsets = ((), (0.02, 0.0), (-1.0, 0.045))
    for na in (1, 2):
        for arrivals in itertools.product(alpha, repeat=na):
            if list(a[1] for a in arrivals) != sorted(a[1] for a in arrivals):
                continue  # arrivals are listed in push order
            for jobs in (jobsets if (na == 1 or tier == "thorough") else jobsets[:2]):
                for maxc in (1, 2, 50):
                    for nidle in ((0, 1, 2) if (na == 1 or tier == "thorough") else (0, 1)):
                        if nidle == 2 and maxc == 50:
                            continue
                        out.append((arrivals, jobs, maxc, nidle))
                        if jobs and maxc == 2 and nidle == 0:
                            out.append((arrivals, jobs, maxc, nidle, True))
    # three arrivals on (mostly) one source: out-of-order chains
    alpha3 = [(si, at, off) for si in (0, 1) for at in PUSH_AT for off in OFFS]
    for arrivals in itertools.product(alpha3, repeat=3):
        if list(a[1] for a in arrivals) != sorted(a[1] for a in arrivals):
            continue
        if sum(1 for a in arrivals if a[0] == 0) < 2:
            continue
        for jobs, maxc, nidle in (((), 2, 0), ((0.02, 0.0), 1, 1)):
            out.append((arrivals, jobs, maxc, nidle))
    if tier == "thorough":
        for arrivals in itertools.product(alpha3, repeat=4):
            if list(a[1] for a in arrivals) != sorted(a[1] for a in arrivals):
                continue
            if sum(1 for a in arrivals if a[0] == 0) < 3:
                continue
            for jobs, maxc, nidle in (((), 1, 0), ((0.02, 0.0), 2, 1)):
                out.append((arrivals, jobs, maxc, nidle))
    return out


def make_run(sc, states=None):
    arrivals, jobs, maxc, nidle = sc[:4]
    tzmix = len(sc) > 4 and sc[4]

    def run_one(ch):
        d = bs.realtime_dispatcher(max_concurrent=maxc)
        srcs = [bs.FifoQueueEventSource(), bs.FifoQueueEventSource()]
        trace = []
        active = [0]
        errors = []
        d.on_error = lambda e: errors.append(str(getattr(e, "message", e))[:40])
        holder = {}

        def now():
            return holder["loop"].time()

        def note():
            if states is not None:
                states.add(h64((tuple(trace), active[0])))

        async def work(tag):
            k = ch.choose(len(DURS), "dur:" + tag)
            if DURS[k]:
                await asyncio.sleep(DURS[k])

        def mkh(si):
            async def h(e):
                active[0] += 1
                trace.append(("ev", si, e._tag, round(now(), 6), round(secs(e.when), 6)))
                note()
                try:
                    await work("ev")
                finally:
                    active[0] -= 1
            return h

        for si, s in enumerate(srcs):
            d.subscribe(s, mkh(si))
        for ji, jt in enumerate(jobs):
            async def j(ji=ji, jt=jt):
                active[0] += 1
                trace.append(("job", ji, round(now(), 6), jt))
                note()
                try:
                    await work("job")
                finally:
                    active[0] -= 1
            # the same instant expressed in another time zone (west / east of UTC, alternating): instants, not labels, count
            d.schedule(T(jt).astimezone(TZS[ji % len(TZS)]) if tzmix else T(jt), j)
        for k in range(nidle):
            async def idle(k=k):
                trace.append(("idle", k, round(now(), 6), active[0]))
                await asyncio.sleep(0.004)
            d.subscribe_idle(idle)

        async def driver():
            for n, (si, at, off) in enumerate(arrivals):
                if at > now():
                    await asyncio.sleep(at - now())
                when = T(now() + off)
                e = bs.Event(when.astimezone(TZS[n % len(TZS)]) if tzmix else when)
                e._tag = n
                srcs[si].push(e)
                trace.append(("push", si, n, round(now(), 6), round(now() + off, 6)))
            await asyncio.sleep(STOP_AT - now())
            trace.append(("stop", round(now(), 6)))
            d.stop()

        async def main():
            await asyncio.gather(d.run(stop_signals=[]), driver())

        def on_step(loop):
            holder["loop"] = loop

        out, exc, loop = run_on_vloop(lambda loop: holder.setdefault("loop", loop) and main(), on_step=on_step,
                                      horizon=5.0, max_steps=100000)
        if exc is not None:
            out = "raised:" + type(exc).__name__
        return dict(out=out, trace=trace, errors=errors)
    return run_one


def oracle(sc, r):
    arrivals, jobs, maxc, nidle = sc[:4]
    bad = []
    if r["out"] != "returned":
        bad.append(("run-outcome", r["out"]))
        return bad
    tr = r["trace"]
    stop_t = next((x[1] for x in tr if x[0] == "stop"), STOP_AT)
    for x in tr:
        if x[0] == "ev" and x[3] < x[4] - 1e-9:
            bad.append(("event-early", f"event stamped {x[4]} dispatched at {x[3]}"))
        if x[0] == "job" and x[2] < x[3] - 1e-9:
            bad.append(("job-early", f"job scheduled for {x[3]} ran at {x[2]}"))
        if x[0] == "idle" and x[3] != 0:
            bad.append(("idle-while-busy", f"idle handler started at {x[2]} with {x[3]} handlers active"))
    pushes = [x for x in tr if x[0] == "push"]
    n_dropped = 0
    for si in (0, 1):
        last = None
        expect = []
        for p in [p for p in pushes if p[1] == si]:
            if last is not None and p[4] < last - 1e-12:
                n_dropped += 1
                continue
            last = p[4]
            expect.append(p[2])
        got = [x[2] for x in tr if x[0] == "ev" and x[1] == si and x[3] < stop_t]
        if got != expect:
            clause = "delivery"
            if len(got) != len(set(got)):
                clause = "delivered-twice"
            elif set(got) - set(expect):
                clause = "out-of-order-delivered"
            elif set(expect) - set(got):
                clause = "not-delivered"
            else:
                clause = "source-order"
            bad.append((clause, f"source {si}: delivered {got}, expected {expect}"))
        times = [x[4] for x in tr if x[0] == "ev" and x[1] == si]
        if times != sorted(times):
            bad.append(("source-order", f"source {si}: delivered timestamps {times}"))
    if len(r["errors"]) != n_dropped:
        bad.append(("drop-not-reported", f"{n_dropped} out-of-order events but {len(r['errors'])} error reports"))
    for ji, jt in enumerate(jobs):
        n = sum(1 for x in tr if x[0] == "job" and x[1] == ji)
        if n != 1:
            bad.append(("job-count", f"job {ji}@{jt} ran {n}x"))
    return bad


def run_scenario(sc, tier):
    res = Result()
    bound = None if len(sc[0]) + len(sc[1]) <= 3 else BOUNDS[tier]["deviation_bound"]
    first = True
    for choices, tr, r in explore(make_run(sc, res.states), bound):
        res.executions += 1
        res.transitions += len(tr) + 1
        res.outcomes[r["out"]] += 1
        if sum(1 for x in r["trace"] if x[0] in ("ev", "job")) >= 2:
            res.nontrivial.add(h64((sc, tuple(r["trace"]))))
        bad = oracle(sc, r)
        if first or bad:
            r2 = make_run(sc)(Chooser(choices))
            if r2 != r:
                raise RuntimeError(f"HARNESS-NONDETERMINISM scenario={sc} choices={choices}")
            res.validated += 1
        if first:
            res.samples.append(dict(scenario=repr(sc), choices=choices, trace=[list(x) for x in r["trace"]],
                                    errors=r["errors"]))
            first = False
        for clause, detail in bad:
            res.violation(f"{PROPERTY}:{clause}", f"{detail}; scenario={sc} choices={choices}",
                          dict(scenario=[list(map(list, sc[0])), list(sc[1]), sc[2], sc[3], len(sc) > 4 and sc[4]], choices=choices),
                          size=100 * (len(sc[0]) + len(sc[1])) + 10 * sc[3] + sum(1 for c in choices if c))
    return res


def replay(rep):
    s = rep["scenario"]
    sc = (tuple(tuple(a) for a in s[0]), tuple(s[1]), s[2], s[3], bool(s[4]) if len(s) > 4 else False)
    r = make_run(sc)(Chooser(rep["choices"]))
    print("scenario:", sc)
    for x in r["trace"]:
        print("  ", x)
    print("outcome:", r["out"], r["errors"])
    return [f"{c}: {d}" for c, d in oracle(sc, r)]

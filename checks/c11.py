"""C11 - loan lifecycle and interest (DESIGN.md section 3, C11): BFS over operation histories of the real exchange."""
import itertools
from decimal import Decimal as D

from checks import _exch_common as X
from mc.framework import Result, h64

PROPERTY = "C11"
RULE = ("state = canonical key of the real exchange reached by an operation history (balances, holds, borrowed, open "
        "orders, open loans, last closes, re-index phase); transitions = every action of the configuration's alphabet "
        "(bars, market/limit/stop/stop-limit orders with and without auto-borrow/auto-repay, cancels, loans, repayments, "
        "invalid requests) from every state up to the depth; the interest-formula / loan-lifecycle oracle runs on every transition. Distinct = "
        "distinct states; non-trivial = reached by a transition that produced order events, a rejection or a loan.")
ASSUMPTIONS = [
    "amounts 1..5 units (x10 in K29), price grid {30,33.37,90,100,110,300}, volumes giving 0/1/2.5/2.75/3/4/10 units of liquidity; configurations of "
    "checks/_exch_common.py (fee x liquidity x lending x precision x initial balances x 1-2 pairs)",
    "interest grid: 3 percentages x 5 periods x (2 minimums x 2 interest symbols with daily steps + 2 sub-second step lengths) x 3 precisions x 5 principals x 4 price paths x ages 0..12; largest-first: every tuple of 2 (quick) / 3 (thorough) loan sizes x 6 proceeds levels x both sides, decided differentially",
    "strategy actions are issued after at least one bar (orders placed before the first event are a separate scenario)",
    "the synchronous driver is validated against the public-API driver on all short histories (conformance scenarios) "
    "and on every reported violation",
]
SPEC = {
    'quick': [('K1', 'ar', 6),
              ('K13', 'ar4', 4),
              ('K30', 'lend', 4),
              ('K33', 'lend', 4),
              ('K25', 'lend', 4),
              ('K13', 'lend', 4),
              ('K1', 'lend', 4),
              ('K10', 'lend', 4),
              ('K14', 'lend', 4),
              ('K2', 'std', 3)],
    'conf_quick': [('K10', 3)],
    'conf_thorough': [('K10', 3), ('K4', 3)],
}
SPEC['thorough'] = X.thorough_spec(SPEC['quick'], [('K13', 'lend'), ('K10', 'lend'), ('K14', 'lend')])
BOUNDS = {t: dict(spec=SPEC[t]) for t in ("quick", "thorough")}
EXPLANATION = ("explicit-state BFS over operation histories with state de-duplication; every transition executes the "
               "real exchange; traces_validated_against_impl = histories executed through BOTH drivers (sync and "
               "public API under a real dispatcher) with identical complete observable state")


# ---- interest grid: every (percentage, period, minimum, interest symbol, precision, principal, price path, age 0..12)
PCTS = ("10", "2.5", "0.1")
PERIODS = (3, 7, 10, 365, 0)
PRECS = ((0, 2), (2, 2), (8, 8))
PRICE_PATHS = ((7,), (5,), (6,), (7, 5, 6))  # bar shapes cycled while the loan ages: 100 / 300 / 30 / mixed


def scenarios(tier, seed):
    out = X.plan(PROPERTY, tier, SPEC)
    for pct in PCTS:
        for period in PERIODS:
            for bp, qp in PRECS:
                out.append(("interest-grid", pct, period, bp, qp))
    for side in ("S", "B", "B2"):
        for sizes in itertools.product((1, 2, 3), repeat=2 if tier == "quick" else 3):
            out.append(("largest-first", side, sizes))
        for n in (1, 2, 3):
            out.append(("largest-first", side, (n,)))
    out.append(("repay-retry",))
    return out


def _interest_grid(sc, res):
    from worlds import exch, exch_bfs
    exch.install_deterministic_ids()
    _, pct, period, bp, qp = sc
    found = []
    for minint, isym, step_us, extra_us in ((0, "USD", None, 0), (1, "USD", None, 0), (0, "same", None, 0), (1, "same", None, 0),
                                            (0, "USD", 750000, 0), (0, "same", 1500001, 0),
                                            # a period that is not a whole number of steps, with a sub-millisecond part
                                            (0, "USD", 750000, 999), (0, "same", None, 123457)):
        if True:
            lend = dict(req="0", isym=isym, period=period, minint=minint, pct=pct)
            if extra_us and period:
                lend["period_us"] = period * (step_us or 86400 * 10 ** 6) + extra_us
            elif extra_us:
                continue
            cfg = dict(lend=lend, fee=None, liq=None,
                       init=(("USD", 100000), ("BTC", 1000)), bp=bp, qp=qp, step_us=step_us)
            u = exch.unit(cfg)
            loans = [("USD", "100"), ("USD", "33.33" if qp >= 2 else "33"), ("USD", "7"), ("BTC", str(u)), ("BTC", str(3 * u))]
            for sym, amt in loans:
                for path in PRICE_PATHS:
                    prefix = [("bar", 0, path[0]), ("loan", sym, amt)]
                    cyc = [("bar", 0, path[(k + 1) % len(path)]) for k in range(12)] + [("repay", 0)]
                    exch_bfs.lasso(cfg, prefix, cyc, 1, [PROPERTY], res, lambda h, b, cfg=cfg: found.append((cfg, h, b)))
    res.nontrivial |= res.states
    if not res.samples:
        res.samples.append(dict(kind="interest-grid", pct=pct, period_steps=period, precision=[bp, qp],
                                example_history=[list(a) for a in prefix + cyc]))
    for cfg, hist, bad in found:
        for p, clause, detail in bad:
            res.violation(f"{PROPERTY}:{clause}:interest-grid", f"{detail}; lending={cfg['lend']} precision=({bp},{qp}) "
                          f"history={hist}", dict(kind="interest-grid", cfg=_jcfg(cfg), history=hist), size=len(hist))
    return res


def _jcfg(cfg):
    return dict(cfg, init=[list(x) for x in cfg["init"]])


# ---- largest-first, decided differentially (no hand-written expectation)
def _lf_run(side, sizes, price_k, auto, order=None, gap=0):
    """side S: USD loans, a market SELL of 1 BTC whose proceeds (price) can afford some of them. side B: BTC loans, a
    market BUY of n BTC. Everything else the account owns is locked by a far limit order, so only what the order
    acquires can repay. auto=True: the order has auto_repay. auto=False: same order without auto_repay, followed at the
    same timestamp by explicit repay_loan calls in the given order (failures ignored)."""
    import basana as bs
    from basana.backtesting import exchange as ex, lending, liquidity, errors
    from worlds import exch as _exch
    from worlds.exch import PAIRS, T, call, DAY
    _exch.set_step({})
    P = PAIRS[0]
    d = bs.backtesting_dispatcher()
    ls = lending.MarginLoans("USD", default_conditions=lending.MarginLoanConditions(
        interest_symbol="USD", interest_percentage=D(10), interest_period=10 * DAY, min_interest=D(0),
        margin_requirement=D(0)))
    tight = side == "B2"  # buy filled below its estimate, quote balance exactly the reservation: leftover hold at close
    if tight:
        side = "B"
    init = {"BTC": D(1)} if side == "S" else {"USD": D(100 * price_k) if tight else D(100000)}
    e = ex.Exchange(d, init, lending_strategy=ls, liquidity_strategy_factory=liquidity.InfiniteLiquidity)
    e.add_bar_source(bs.FifoQueueEventSource())
    e.set_symbol_precision("BTC", 0)
    e.set_symbol_precision("USD", 2)
    e.set_pair_info(P, bs.PairInfo(0, 2))

    def bar(t, price):
        d._set_now(T(t))
        p = D(price)
        call(e._on_bar_event(bs.BarEvent(T(t), bs.Bar(T(t - 1), P, p, p, p, p, D(1000)))))
    bar(1, 100)
    B, S = bs.OrderOperation.BUY, bs.OrderOperation.SELL
    t = [1]

    def loans(symbol, amounts):
        # gap > 0: the loans are opened `gap` bars apart, so they differ in AGE (and in accrued interest, which is charged in
        # USD whatever was borrowed): "largest" is about the principal, not about principal plus interest
        out = []
        for k, a in enumerate(amounts):
            if k and gap:
                for _ in range(gap):
                    t[0] += 1
                    bar(t[0], 100)
            out.append(call(e.create_loan(symbol, a)).id)
        return out
    if side == "S":
        lids = loans("USD", [D(50 * n) for n in sizes])
        total = sum(50 * n for n in sizes)
        call(e.create_limit_order(B, P, D(1), D(total)))          # locks all borrowed USD
        call(e.create_market_order(S, P, D(1), auto_repay=auto))
        bar(t[0] + 1, price_k)                                     # proceeds = price_k
    else:
        lids = loans("BTC", [D(n) for n in sizes])
        call(e.create_limit_order(S, P, D(sum(sizes)), D(100000)))  # locks all borrowed BTC
        call(e.create_market_order(B, P, D(price_k), auto_repay=auto))  # acquires price_k BTC
        bar(t[0] + 1, 90 if tight else 100)
    if not auto:
        for i in order:
            try:
                call(e.repay_loan(lids[i]))
            except errors.Error:
                pass
    bal = {k: (v.available, v.hold, v.borrowed) for k, v in sorted(call(e.get_balances()).items())
           if v.available or v.hold or v.borrowed}
    loans = sorted((lo.borrowed_symbol, lo.borrowed_amount, lo.is_open, tuple(sorted(lo.paid_interest.items())))
                   for lo in call(e.get_loans()))
    return bal, loans


def _largest_first(sc, res):
    _, side, sizes = sc
    ks = (40, 60, 110, 160, 220, 320) if side == "S" else (1, 2, 3, 4, 5, 6)
    if side == "B2":
        ks = (1, 2, 3)
    for k, gap in [(k, g) for k in ks for g in ((0, 3) if side != "B2" else (0,))]:
        a = _lf_run(side, sizes, k, True, gap=gap)
        n = len(sizes)
        orders = [p for p in itertools.permutations(range(n))
                  if all(sizes[p[i]] >= sizes[p[i + 1]] for i in range(n - 1))]  # descending principal, every tie order
        refs = [_lf_run(side, sizes, k, False, list(p), gap=gap) for p in orders]
        res.executions += 1 + len(refs)
        res.transitions += 1 + len(refs)
        res.states.add(h64((side, sizes, k, gap, repr(a))))
        if any(not lo[2] for lo in a[1]):
            res.nontrivial.add(h64((side, sizes, k, gap)))
        case = dict(kind="largest-first", side=side, sizes=list(sizes), k=k, gap=gap)
        if a not in refs:
            res.violation(f"{PROPERTY}:largest-first", f"auto-repay order closed with loans {a[1]} / balances {a[0]}; "
                          f"explicit largest-first repayment gives loans {refs[0][1]} / balances {refs[0][0]}; {case}", case,
                          size=len(sizes))
        else:
            res.validated += 1
        if not res.samples:
            res.samples.append(dict(case, loans_after=[list(map(str, lo)) for lo in a[1]]))
    res.outcomes[("largest-first", "done")] += 1
    return res


def _repay_retry(res):
    """A repayment that is refused (explicitly, or silently when an auto-repay order cannot afford it) and succeeds later:
    what is finally recorded as paid must be what was debited, an open loan has paid nothing."""
    from worlds import exch, exch_bfs
    exch.install_deterministic_ids()
    found = []
    for period in (3, 10):
        for isym in ("USD", "same"):
            for init_usd in (200, 250):
                cfg = dict(lend=dict(req="0.5", isym=isym, period=period, pct="10"), fee=None, liq=None,
                           init=(("USD", init_usd),), bp=0, qp=2)
                spend = ("ord", "mkt", "B", 0, "3", None, None, False, False)
                sell = ("ord", "mkt", "S", 0, "3", None, None, False, False)
                sell_ar = ("ord", "mkt", "S", 0, "1", None, None, False, True)
                bar = ("bar", 0, 7)
                hists = [
                    [bar, ("loan", "USD", "100"), spend, bar, bar, ("repay", 0), sell, bar, ("repay", 0)],
                    [bar, ("loan", "USD", "100"), spend, bar, ("repay", 0), bar, ("repay", 0), sell, bar, bar, ("repay", 0)],
                    [bar, ("loan", "USD", "100"), ("loan", "USD", "100"), spend, bar, bar, sell_ar, bar, sell, bar, ("repay", 0), ("repay", 1)],
                ]
                for h in hists:
                    exch_bfs.lasso(cfg, h, [], 0, [PROPERTY], res, lambda hh, b, cfg=cfg: found.append((cfg, hh, b)))
                    # open loans never report paid interest
                    w = exch.build(cfg, h[:6])
                    for lo in exch.call(w.e.get_loans(is_open=True)):
                        if any(lo.paid_interest.values()):
                            found.append((cfg, h[:6], [(PROPERTY, "paid-interest", f"open loan reports paid interest {lo.paid_interest}")]))
    res.nontrivial |= res.states
    res.samples.append(dict(kind="repay-retry"))
    for cfg, hist, bad in found:
        for p, clause, detail in bad:
            res.violation(f"{PROPERTY}:{clause}:repay-retry", f"{detail}; lending={cfg['lend']} history={hist}",
                          dict(kind="interest-grid", cfg=_jcfg(cfg), history=hist), size=len(hist))
    return res


def run_scenario(sc, tier):
    if sc[0] == "repay-retry":
        return _repay_retry(Result())
    if sc[0] == "interest-grid":
        return _interest_grid(sc, Result())
    if sc[0] == "largest-first":
        return _largest_first(sc, Result())
    return X.run_scenario(PROPERTY, sc, tier)


def replay(rep):
    if rep.get("kind") == "largest-first":
        res = _largest_first(("largest-first", rep["side"], tuple(rep["sizes"])), Result())
        return [v["message"] for v in res.violations if f"'k': {rep['k']}," in v["message"]
                and f"'gap': {rep.get('gap', 0)}" in v["message"]]
    if rep.get("kind") == "interest-grid":
        from worlds import exch, exch_bfs
        exch.install_deterministic_ids()
        cfg = dict(rep["cfg"], init=tuple(tuple(x) for x in rep["cfg"]["init"]))
        hist = [tuple(a) for a in rep["history"]]
        print("config", cfg)
        for a in hist:
            print("   ", a)
        out = exch_bfs.transition(cfg, hist[:-1], hist[-1], [PROPERTY])
        return [f"{p}:{c}: {d}" for p, c, d in out[2]] if out else []
    return X.replay(PROPERTY, rep)

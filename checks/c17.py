"""C17 - order parameters and exchange payloads cross the wire without loss (DESIGN.md section 4, C17).

Outbound: the real exchange objects and raw clients over the loopback server; every order entry point of both clients x
EVERY decimal c x 10^e with c in {1, 5, 12, 85, 100, 1230, 123456789} and e in -12..12 for each decimal argument: the
received string is plain fixed-point and numerically equal; unset options are absent; endpoint, side, symbol and type
match a table. Inbound: every decoding property of every wrapper class (table in worlds/payloads.py) fed payloads with
every decimal shape, every millisecond of chosen seconds and year boundaries 2010-2100, microseconds of chosen seconds,
and every order status of the code's tables.
"""
import asyncio
import collections
import copy
import datetime
import json
import re
import urllib.parse
from decimal import Decimal as D

import aiohttp
import basana as bs

from mc.framework import Result, h64
from worlds import http as H

PROPERTY = "C17"
RULE = ("outbound case = (entry point, decimal argument, decimal value); inbound case = (wrapper class, property, value). "
        "All cases of the product are executed on the real clients / wrapper classes. Distinct = distinct cases; "
        "non-trivial = the decimal is one whose str() uses an exponent, or the timestamp has a non-zero sub-second part.")
ASSUMPTIONS = [
    "decimals c x 10^e, c in {1,5,12,85,100,1230,123456789}, e in -12..12 (both regimes of Decimal.__str__, trailing zeros)",
    "timestamps: every ms of 3 seconds per chosen year + first/last ms of each year 2010-2100; every 997th us of chosen "
    "seconds (quick) / every us (thorough) in 2010, 2037, 2039, 2099",
    "order statuses: the ones in the code's own tables (newer exchange statuses cannot be looked up offline)",
    "loopback HTTP as for C16",
]
BOUNDS = {"quick": dict(us_step=997), "thorough": dict(us_step=1)}
EXPLANATION = "bounded exhaustive input enumeration through the real clients / wrapper classes; every case is an implementation run"
COEFFS = (1, 5, 12, 85, 100, 1230, 123456789)
DECIMALS = [D(c).scaleb(e) for c in COEFFS for e in range(-12, 13)]
PLAIN = re.compile(r"^\d+(\.\d+)?$")
PB = bs.Pair("BTC", "USDT")
PS = bs.Pair("BTC", "USD")
BUY, SELL = bs.OrderOperation.BUY, bs.OrderOperation.SELL
ONE = D("1")


def outbound_entries(be, se, bc, sc):
    """name -> (fn(x) -> coroutine, method, path, fixed params expected, decimal params (carry x), params that must be absent)"""
    E = {}
    for acc_name, acc, path in (("spot", be.spot_account, "/api/v3/order"), ("cross", be.cross_margin_account, "/sapi/v1/margin/order"),
                                ("iso", be.isolated_margin_account, "/sapi/v1/margin/order")):
        oco_path = "/api/v3/order/oco" if acc_name == "spot" else "/sapi/v1/margin/order/oco"
        E[f"binance.{acc_name}.market.amount"] = (
            lambda x, acc=acc: acc.create_market_order(BUY, PB, amount=x), "POST", path,
            dict(symbol="BTCUSDT", side="BUY", type="MARKET"), ["quantity"], ["quoteOrderQty", "price", "stopPrice", "timeInForce", "newClientOrderId"])
        E[f"binance.{acc_name}.market.quote_amount"] = (
            lambda x, acc=acc: acc.create_market_order(SELL, PB, quote_amount=x), "POST", path,
            dict(symbol="BTCUSDT", side="SELL", type="MARKET"), ["quoteOrderQty"], ["quantity", "price", "stopPrice"])
        E[f"binance.{acc_name}.limit"] = (
            lambda x, acc=acc: acc.create_limit_order(SELL, PB, x, x), "POST", path,
            dict(symbol="BTCUSDT", side="SELL", type="LIMIT", timeInForce="GTC"), ["quantity", "price"], ["stopPrice", "quoteOrderQty"])
        E[f"binance.{acc_name}.stop_limit"] = (
            lambda x, acc=acc: acc.create_stop_limit_order(BUY, PB, x, x, x), "POST", path,
            dict(symbol="BTCUSDT", side="BUY", type="STOP_LOSS_LIMIT", timeInForce="GTC"), ["quantity", "price", "stopPrice"], ["quoteOrderQty"])
        E[f"binance.{acc_name}.oco"] = (
            lambda x, acc=acc: acc.create_oco_order(SELL, PB, x, x, x, stop_limit_price=x), "POST", oco_path,
            dict(symbol="BTCUSDT", side="SELL", stopLimitTimeInForce="GTC"), ["quantity", "price", "stopPrice", "stopLimitPrice"],
            ["listClientOrderId", "limitClientOrderId", "stopClientOrderId"])
        E[f"binance.{acc_name}.oco.no_stop_limit"] = (
            lambda x, acc=acc: acc.create_oco_order(BUY, PB, x, x, x), "POST", oco_path,
            dict(symbol="BTCUSDT", side="BUY"), ["quantity", "price", "stopPrice"], ["stopLimitPrice", "stopLimitTimeInForce"])
    E["binance.cross.transfer_in"] = (lambda x: be.cross_margin_account.transfer_from_spot_account("BTC", x), "POST",
                                      "/sapi/v1/margin/transfer", dict(asset="BTC", type="1"), ["amount"], [])
    E["binance.cross.transfer_out"] = (lambda x: be.cross_margin_account.transfer_to_spot_account("BTC", x), "POST",
                                       "/sapi/v1/margin/transfer", dict(asset="BTC", type="2"), ["amount"], [])
    E["binance.iso.transfer_in"] = (lambda x: be.isolated_margin_account.transfer_from_spot_account("BTC", PB, x), "POST",
                                    "/sapi/v1/margin/isolated/transfer",
                                    dict(asset="BTC", symbol="BTCUSDT", transFrom="SPOT", transTo="ISOLATED_MARGIN"), ["amount"], [])
    E["binance.iso.transfer_out"] = (lambda x: be.isolated_margin_account.transfer_to_spot_account("BTC", PB, x), "POST",
                                     "/sapi/v1/margin/isolated/transfer",
                                     dict(asset="BTC", symbol="BTCUSDT", transFrom="ISOLATED_MARGIN", transTo="SPOT"), ["amount"], [])
    # raw clients
    E["binance.client.spot.create_order"] = (
        lambda x: bc.spot_account.create_order("BTCUSDT", "BUY", "STOP_LOSS_LIMIT", time_in_force="GTC", quantity=x, price=x, stop_price=x),
        "POST", "/api/v3/order", dict(symbol="BTCUSDT", side="BUY", type="STOP_LOSS_LIMIT"), ["quantity", "price", "stopPrice"],
        ["quoteOrderQty", "newClientOrderId"])
    E["binance.client.cross.create_order.quote"] = (
        lambda x: bc.cross_margin_account.create_order("BTCUSDT", "SELL", "MARKET", quote_order_qty=x),
        "POST", "/sapi/v1/margin/order", dict(symbol="BTCUSDT", side="SELL", type="MARKET"), ["quoteOrderQty"], ["quantity", "price"])
    E["binance.client.spot.create_oco"] = (
        lambda x: bc.spot_account.create_oco("BTCUSDT", "SELL", x, x, x, stop_limit_price=x, stop_limit_time_in_force="GTC"),
        "POST", "/api/v3/order/oco", dict(symbol="BTCUSDT", side="SELL"), ["quantity", "price", "stopPrice", "stopLimitPrice"], [])
    E["binance.client.iso.create_oco"] = (
        lambda x: bc.isolated_margin_account.create_oco("BTCUSDT", "SELL", x, x, x),
        "POST", "/sapi/v1/margin/order/oco", dict(symbol="BTCUSDT", side="SELL"), ["quantity", "price", "stopPrice"], ["stopLimitPrice"])
    # bitstamp
    E["bitstamp.market"] = (lambda x: se.create_market_order(BUY, PS, x), "POST", "/api/v2/buy/market/btcusd/", {}, ["amount"],
                            ["price", "client_order_id"])
    E["bitstamp.limit"] = (lambda x: se.create_limit_order(SELL, PS, x, x), "POST", "/api/v2/sell/btcusd/", {}, ["amount", "price"],
                           ["client_order_id"])
    E["bitstamp.instant"] = (lambda x: se.create_instant_order(SELL, PS, x, amount_in_counter=True), "POST",
                             "/api/v2/sell/instant/btcusd/", {}, ["amount"], ["client_order_id"])
    E["bitstamp.instant.buy"] = (lambda x: se.create_instant_order(BUY, PS, x), "POST", "/api/v2/buy/instant/btcusd/", {},
                                 ["amount"], ["client_order_id"])
    E["bitstamp.client.limit"] = (lambda x: sc.create_limit_order("buy", "btcusd", x, x), "POST", "/api/v2/buy/btcusd/", {},
                                  ["amount", "price"], ["client_order_id"])
    E["bitstamp.client.market"] = (lambda x: sc.create_market_order("sell", "btcusd", x), "POST", "/api/v2/sell/market/btcusd/", {},
                                   ["amount"], [])
    return E


class _Dummy:
    def __getattr__(self, name):
        return _Dummy()

    def __call__(self, *a, **k):
        return None


def scenarios(tier, seed):
    out = [("out", name) for name in sorted(outbound_entries(_Dummy(), _Dummy(), _Dummy(), _Dummy()))]
    try:
        from worlds import payloads
        out += [("in", w["name"]) for w in payloads.WRAPPERS]
        out += [("sums", w["name"]) for w in payloads.WRAPPERS if w["name"].endswith(".OrderInfo")]
        # the same timestamp checks with a local time zone that is not UTC (decoders must not depend on it)
        out += [("in-tz", w["name"], tz) for w in payloads.WRAPPERS for tz in ("EST5EDT,M3.2.0,M11.1.0", "IST-5:30")
                if w.get("ms_timestamps") or w.get("us_timestamps") or w.get("iso_timestamps")]
    except ImportError:
        pass
    return out


async def _outbound(name, res):
    from basana.external.binance import exchange as bex, client as bcli
    from basana.external.bitstamp import exchange as sex, client as scli
    H.patch_time()
    srv = H.Server()
    await srv.start()
    try:
        conn = aiohttp.TCPConnector(resolver=H.resolver(srv.port))
        async with aiohttp.ClientSession(connector=conn) as session:
            d = bs.realtime_dispatcher()
            be = bex.Exchange(d, H.KEY, H.SECRET, session=session, config_overrides=H.BINANCE_URL)
            se = sex.Exchange(d, H.KEY, H.SECRET, session=session, config_overrides=H.BITSTAMP_URL)
            bc = bcli.APIClient(H.KEY, H.SECRET, session=session, config_overrides=H.BINANCE_URL)
            sc = scli.APIClient(H.KEY, H.SECRET, session=session, config_overrides=H.BITSTAMP_URL)
            fn, method, path, fixed, decs, absent = outbound_entries(be, se, bc, sc)[name]
            for x in DECIMALS:
                srv.reqs.clear()
                err = None
                try:
                    await fn(x)
                except Exception as e:  # noqa
                    err = ("client-raised", f"{type(e).__name__}: {e}")
                res.executions += 1
                res.transitions += 1
                res.validated += 1
                key = h64((name, str(x)))
                res.states.add(key)
                if "E" in str(x):
                    res.nontrivial.add(key)
                bad = [err] if err else []
                if not err:
                    req = srv.reqs[-1]
                    params = dict(urllib.parse.parse_qsl(req["body"].decode(), keep_blank_values=True))
                    params.update(urllib.parse.parse_qsl(req["raw_path"].partition("?")[2], keep_blank_values=True))
                    rpath = req["raw_path"].partition("?")[0]
                    if req["method"] != method or rpath != path:
                        bad.append(("endpoint", f"{req['method']} {rpath}, expected {method} {path}"))
                    for k, v in fixed.items():
                        if params.get(k) != v:
                            bad.append(("fixed-parameter", f"{k}={params.get(k)!r}, expected {v!r}"))
                    for k in absent:
                        if k in params:
                            bad.append(("unset-option-sent", f"{k}={params[k]!r} although it was left unset"))
                    for k in decs:
                        v = params.get(k)
                        if v is None:
                            bad.append(("decimal-missing", f"{k} not transmitted"))
                        elif not PLAIN.match(v):
                            bad.append(("decimal-notation", f"{k}={v!r} is not plain fixed-point notation (sent {x!r})"))
                        elif D(v) != x:
                            bad.append(("decimal-value", f"{k}={v!r} != {x}"))
                    if not res.samples:
                        res.samples.append(dict(entry=name, decimal=str(x), request=req["method"] + " " + req["raw_path"],
                                                body=req["body"].decode()))
                res.outcomes["ok" if not bad else "bad"] += 1
                for clause, detail in bad:
                    res.violation(f"{PROPERTY}:out:{clause}:{name.split('.')[0]}", f"{detail}; entry={name} decimal={x!r}",
                                  dict(kind="out", entry=name, decimal=str(x)), size=len(str(x)))
    finally:
        await srv.stop()


# ---- inbound --------------------------------------------------------------------------------------------------------
UTC = datetime.timezone.utc
EP = datetime.datetime(1970, 1, 1, tzinfo=UTC)


def _secs(y, extra=0):
    return int((datetime.datetime(y, 1, 1, tzinfo=UTC) - EP).total_seconds()) + extra


def ms_values():
    out = []
    for y, extra in ((2010, 0), (2024, 86399), (2038, 12345678)):
        base = _secs(y, extra) * 1000
        out += [base + ms for ms in range(1000)]
    for y in range(2010, 2101):
        out += [_secs(y) * 1000, _secs(y) * 1000 - 1]
    return out


def us_values(step):
    out = []
    for y in (2010, 2037, 2039, 2099):
        base = _secs(y, 4321) * 1_000_000
        out += [base + us for us in range(0, 1_000_000, step)]
        out += [base + 999_999, base + 1]
    for y in range(2010, 2101, 10):
        out += [_secs(y) * 1_000_000, _secs(y) * 1_000_000 - 1]
    return out


def _inbound(name, tier, res, only_timestamps=False, tag=""):
    from worlds import payloads
    w = next(x for x in payloads.WRAPPERS if x["name"] == name)

    def build(path, value, prop=None):
        muts = [(path, value)]
        if prop is not None:  # fields that are validated together (e.g. the OHLC of a bar) move together
            muts += [(p2, value) for p2 in w.get("co_set", {}).get(prop, [])]
        return payloads.build(w, muts)[0]

    def record(case_key, nontrivial, bad, case):
        res.executions += 1
        res.transitions += 1
        res.validated += 1
        key = h64(case_key)
        res.states.add(key)
        if nontrivial:
            res.nontrivial.add(key)
        res.outcomes["ok" if not bad else "bad"] += 1
        for clause, detail in bad:
            res.violation(f"{PROPERTY}:in:{clause}:{name}", f"{detail}; {case}", case, size=1)
    for prop, path in ({} if only_timestamps else w.get("decimals", {})).items():
        for x in DECIMALS:
            for text in dict.fromkeys((format(x, "f"), str(x))):
                bad = []
                try:
                    got = payloads.get_attr(build(path, text, prop), prop)
                    if prop in w.get("skip_zero", []) and x == 0:
                        pass
                    elif not isinstance(got, D) or got != x:
                        bad.append(("decimal", f"{prop} decoded {text!r} as {got!r}"))
                except Exception as e:  # noqa
                    bad.append(("exception", f"{prop} on {text!r}: {type(e).__name__}: {e}"))
                record((name, prop, text), "E" in text or "." in text, bad, dict(kind="in", wrapper=name, property=prop, value=text))
    for prop, path in ({} if only_timestamps else w.get("decimals", {})).items():
        if list(path) not in [list(p2) for p2 in w.get("float_fields", [])]:
            continue
        # the exchange sends this field as a JSON number: the decoded decimal must be the number that was printed
        for text in ("0.00319028", "20925.98", "1e-08", "123456.78901234", "0.1", "0.3"):
            bad = []
            try:
                got = payloads.get_attr(build(path, json.loads(text), prop), prop)
                if not isinstance(got, D) or got != D(repr(json.loads(text))):
                    bad.append(("json-number", f"{prop} decoded the JSON number {text} as {got!r}"))
            except Exception as e:  # noqa
                bad.append(("exception", f"{prop} on JSON number {text}: {type(e).__name__}: {e}"))
            record((name, prop, "float", text), True, bad, dict(kind="in", wrapper=name, property=prop, value=text))
    for prop, path in w.get("ms_timestamps", {}).items():
        base_is_str = isinstance(_get(w["payload"], path), str)
        for ts in ms_values():
            bad = []
            exp = EP + datetime.timedelta(milliseconds=ts)
            try:
                got = payloads.get_attr(build(path, str(ts) if base_is_str else ts), prop)
                if got != exp or got.tzinfo is None or got.utcoffset() != datetime.timedelta(0):
                    bad.append(("ms-timestamp", f"{prop} decoded {ts} as {got!r}, expected {exp!r}"))
            except Exception as e:  # noqa
                bad.append(("exception", f"{prop} on {ts}: {type(e).__name__}: {e}"))
            record((name, prop, ts, tag), ts % 1000 != 0, bad, dict(kind="in", wrapper=name, property=prop, value=ts))
    for prop, path in w.get("us_timestamps", {}).items():
        base_is_str = isinstance(_get(w["payload"], path), str)
        for ts in us_values(BOUNDS[tier]["us_step"]):
            bad = []
            exp = EP + datetime.timedelta(microseconds=ts)
            try:
                got = payloads.get_attr(build(path, str(ts) if base_is_str else ts), prop)
                if got != exp or got.tzinfo is None or got.utcoffset() != datetime.timedelta(0):
                    bad.append(("us-timestamp", f"{prop} decoded {ts} as {got!r}, expected {exp!r}"))
            except Exception as e:  # noqa
                bad.append(("exception", f"{prop} on {ts}: {type(e).__name__}: {e}"))
            record((name, prop, ts, tag), ts % 1_000_000 != 0, bad, dict(kind="in", wrapper=name, property=prop, value=ts))
    for prop, path in w.get("s_timestamps", {}).items():
        base_is_str = isinstance(_get(w["payload"], path), str)
        for y in range(2010, 2101):
            for ts in (_secs(y), _secs(y) - 1, _secs(y, 4321)):
                bad = []
                exp = EP + datetime.timedelta(seconds=ts)
                try:
                    got = payloads.get_attr(build(path, str(ts) if base_is_str else ts), prop)
                    if got != exp or got.tzinfo is None:
                        bad.append(("s-timestamp", f"{prop} decoded {ts} as {got!r}, expected {exp!r}"))
                except Exception as e:  # noqa
                    bad.append(("exception", f"{prop} on {ts}: {type(e).__name__}: {e}"))
                record((name, prop, ts), True, bad, dict(kind="in", wrapper=name, property=prop, value=ts))
    for prop, path in w.get("iso_timestamps", {}).items():
        # "YYYY-MM-DD HH:MM:SS[.ffffff]" strings are UTC wall-clock times
        for y in (2010, 2024, 2038, 2100):
            for text, exp in ((f"{y}-06-15 12:34:56.123456", datetime.datetime(y, 6, 15, 12, 34, 56, 123456, tzinfo=UTC)),
                              (f"{y}-01-01 00:00:00.000000", datetime.datetime(y, 1, 1, tzinfo=UTC))):
                bad = []
                try:
                    got = payloads.get_attr(build(path, text), prop)
                    if got != exp or got.tzinfo is None or got.utcoffset() != datetime.timedelta(0):
                        bad.append(("iso-timestamp", f"{prop} decoded {text!r} as {got!r}, expected {exp!r}"))
                except Exception as e:  # noqa
                    bad.append(("exception", f"{prop} on {text!r}: {type(e).__name__}: {e}"))
                record((name, prop, text, tag), True, bad, dict(kind="in", wrapper=name, property=prop, value=text))
    for prop, spec in ({} if only_timestamps else w.get("statuses", {})).items():
        for status, exp in spec["table"].items():
            bad = []
            try:
                got = payloads.get_attr(build(spec["path"], status), prop)
                if got is not exp:
                    bad.append(("status", f"{prop} for status {status!r} is {got!r}, expected {exp!r}"))
            except Exception as e:  # noqa
                bad.append(("exception", f"{prop} on {status!r}: {type(e).__name__}: {e}"))
            record((name, prop, status), True, bad, dict(kind="in", wrapper=name, property=prop, value=status))
    if not res.samples:
        res.samples.append(dict(kind="in", wrapper=name, decimals=sorted(w.get("decimals", {})),
                                timestamps=sorted(list(w.get("ms_timestamps", {})) + list(w.get("us_timestamps", {})))))


def _sums(name, tier, res):
    """Aggregates decoded from lists (fees per asset, filled amounts): exact sums over every sequence of <= 4 parts."""
    import itertools
    from worlds import payloads
    w = payloads.BY_NAME[name]
    maxn = 4 if tier == "quick" else 5
    if name.startswith("binance"):
        assets = ("BNB", "BTC", "USDT")
        values = ("0.00001234", "0.00000766", "0")
        base_trade = w["payload"]["trades"][0]
        for n in range(0, maxn + 1):
            for seq in itertools.product(itertools.product(assets, values), repeat=n):
                j = copy.deepcopy(w["payload"])
                j["trades"] = [dict(base_trade, id=1000 + i, commission=v, commissionAsset=a) for i, (a, v) in enumerate(seq)]
                exp = collections.defaultdict(D)
                for a, v in seq:
                    if D(v):
                        exp[a] += D(v)
                bad = []
                try:
                    got = dict(w["make"](j).fees)
                    if {k: v for k, v in got.items() if v} != dict(exp):
                        bad.append(("fees-sum", f"fees {got} for trade commissions {seq}, expected {dict(exp)}"))
                except Exception as e:  # noqa
                    bad.append(("exception", f"{type(e).__name__}: {e}"))
                _record(res, name, (name, "fees", seq), n >= 2, bad, dict(kind="sums", wrapper=name, parts=[list(x) for x in seq]))
    else:
        amounts = (("0.01000000", "193.81000", "0.12000"), ("0.00500000", "96.91000", "0.06000"), ("0.00000001", "0.00019", "0"))
        base_tx = w["payload"]["transactions"][0]
        for n in range(0, maxn + 1):
            for seq in itertools.product(amounts, repeat=n):
                j = copy.deepcopy(w["payload"])
                j["transactions"] = [dict(base_tx, tid=1000 + i, btc=b, usd=u, fee=f) for i, (b, u, f) in enumerate(seq)]
                exp_b = sum((D(b) for b, _, _ in seq), D(0))
                exp_q = sum((D(u) for _, u, _ in seq), D(0))
                exp_f = sum((D(f) for _, _, f in seq), D(0))
                bad = []
                try:
                    o = w["make"](j)
                    if o.amount_filled != exp_b or o.quote_amount_filled != exp_q:
                        bad.append(("filled-sum", f"filled {o.amount_filled}/{o.quote_amount_filled} for transactions {seq}"))
                    if sum(o.fees.values(), D(0)) != exp_f or any(k != "USD" for k in o.fees):
                        bad.append(("fees-sum", f"fees {o.fees} for transactions {seq}, expected {exp_f} USD"))
                except Exception as e:  # noqa
                    bad.append(("exception", f"{type(e).__name__}: {e}"))
                _record(res, name, (name, "sums", seq), n >= 2, bad, dict(kind="sums", wrapper=name, parts=[list(x) for x in seq]))
    if not res.samples:
        res.samples.append(dict(kind="sums", wrapper=name, max_parts=maxn))


def _record(res, name, case_key, nontrivial, bad, case):
    res.executions += 1
    res.transitions += 1
    res.validated += 1
    key = h64(case_key)
    res.states.add(key)
    if nontrivial:
        res.nontrivial.add(key)
    res.outcomes["ok" if not bad else "bad"] += 1
    for clause, detail in bad:
        res.violation(f"{PROPERTY}:in:{clause}:{name}", f"{detail}; {case}", case, size=len(case.get("parts", [])))


def _get(j, path):
    for k in path:
        j = j[k]
    return j


def run_scenario(sc, tier):
    res = Result()
    if sc[0] == "out":
        asyncio.run(_outbound(sc[1], res))
    elif sc[0] == "sums":
        _sums(sc[1], tier, res)
    elif sc[0] == "in-tz":
        import os
        import time as _time
        old = os.environ.get("TZ")
        os.environ["TZ"] = sc[2]
        _time.tzset()
        try:
            _inbound(sc[1], tier, res, only_timestamps=True, tag=sc[2])
        finally:
            if old is None:
                os.environ.pop("TZ", None)
            else:
                os.environ["TZ"] = old
            _time.tzset()
    else:
        _inbound(sc[1], tier, res)
    return res


def replay(rep):
    res = Result()
    if rep["kind"] == "out":
        asyncio.run(_outbound(rep["entry"], res))
        return [v["message"] for v in res.violations if f"decimal={D(rep['decimal'])!r}" in v["message"]]
    if rep["kind"] == "sums":
        _sums(rep["wrapper"], "quick", res)
        return [v["message"] for v in res.violations if str(rep["parts"][0]) in v["message"]][:5]
    _inbound(rep["wrapper"], "quick", res)
    return [v["message"] for v in res.violations if repr(rep["value"]) in v["message"] or str(rep["value"]) in v["message"]][:5]

"""C17 - order parameters and exchange payloads cross the wire without loss (DESIGN.md section 4, C17).

Outbound (the real exchange objects and raw clients over the loopback server):
 * every order entry point of both clients x EVERY decimal c x 10^e with c in {1, 5, 12, 85, 100, 1230, 123456789} and e in
   -12..12, plus decimals with 24 to 55 significant digits inside the magnitude range, for each decimal argument, each under the
   default decimal context AND under reduced-precision contexts of the caller (prec 8, prec 12, prec 8 trapping Inexact /
   Rounded): the received string is plain fixed-point and numerically equal;
 * every combination of the options of every order entry point (side x pair x time in force x client ids x side effect x
   amount_in_counter x stop-limit price x extra keyword arguments; for the raw clients every SUBSET of the optional
   parameters) with pairwise different decimals rotated through the decimal arguments: the received parameter dict equals the
   expected one EXACTLY - every key the caller set arrives with its value, nothing else arrives, endpoint / side / symbol / type
   match a table.
Inbound:
 * every decoding property of every wrapper class (table in worlds/payloads.py) fed payloads with every decimal shape, every
   millisecond of chosen seconds and year boundaries 2010-2100, microseconds of chosen seconds, and every documented order
   status of an independent table (plus, when the library maps them, statuses of newer documentation);
 * the account-level read API that COMPOSES several answers - Binance spot / cross / isolated Account.get_order_info,
   get_open_orders, get_balances, cancel_order and Bitstamp Exchange.get_order_info, get_open_orders, get_balances, get_balance,
   cancel_order - against a model exchange behind the loopback server: every documented status x every sequence of <= 3 trades
   (asset x commission) x lookup key x pair, every store of <= 3 open orders x filter, every list of <= 3 balances.
"""
import asyncio
import collections
import copy
import datetime
import decimal
import itertools
import json
import os
import re
import urllib.parse
from decimal import Decimal as D

import aiohttp
import basana as bs

from mc.framework import Result, h64
from worlds import http as H

PROPERTY = "C17"
RULE = ("outbound case = (entry point, decimal value, decimal context of the caller) | (entry point, combination of options, "
        "rotation of four different decimals through its decimal arguments); inbound case = (wrapper class, property, value) | "
        "(account-level call, state of the model exchange). All cases of the product are executed on the real clients / wrapper "
        "classes. Distinct = distinct cases; non-trivial = the decimal is one whose str() uses an exponent or that has more "
        "digits than the caller's context, an option differs from its default, the timestamp has a non-zero sub-second part, the "
        "order has trades / the store is not empty.")
ASSUMPTIONS = [
    "decimals c x 10^e, c in {1,5,12,85,100,1230,123456789}, e in -12..12 (both regimes of Decimal.__str__, trailing zeros), "
    "plus 8 decimals with 8..55 significant digits between 1e-12 and 1e12; caller contexts: default (prec 28), prec 8, prec 12, "
    "prec 8 with the Inexact and Rounded traps enabled",
    "options: sides BUY/SELL, pairs BTC/USDT and ETH/BTC (Bitstamp BTC/USD and ETH/EUR), timeInForce GTC (default) / IOC / FOK, "
    "sideEffectType default / MARGIN_BUY / AUTO_REPAY, client ids set / unset, amount_in_counter unset / False / True, "
    "stopLimitPrice set / unset, one extra keyword argument; raw clients: every subset of the optional parameters",
    "a default the library transmits explicitly although the caller left it unset is accepted only where it is the exchange's "
    "own default (sideEffectType=NO_SIDE_EFFECT, amount_in_counter=False); booleans are compared case-insensitively",
    "timestamps: every ms of 3 seconds per chosen year + first/last ms of each year 2010-2100; every 997th us of chosen "
    "seconds (quick) / every us (thorough) in 2010, 2037, 2039, 2099",
    "order statuses: Binance NEW, PARTIALLY_FILLED, FILLED, CANCELED, PENDING_CANCEL, REJECTED, EXPIRED; order lists EXECUTING, "
    "ALL_DONE, REJECT; Bitstamp Open, Finished, Expired, Canceled (independent table). PENDING_NEW (open) and EXPIRED_IN_MATCH "
    "(closed) are checked only if the library maps them (a loud refusal is not judged: the documentation is not available "
    "offline); statuses found only in the library's own tables are fed and counted without a verdict",
    "model exchange: orders with consistent documents (executedQty = sum of the trades; NEW / REJECTED orders have no trades), "
    "decoy orders with the same id on the other symbol and in the other margin account and another order with trades on the same symbol; all-zero balances may be dropped",
    "loopback HTTP as for C16",
]
BOUNDS = {"quick": dict(us_step=997, trades=3, open_orders=3, balances=3), "thorough": dict(us_step=1, trades=4, open_orders=3, balances=3)}
EXPLANATION = "bounded exhaustive input enumeration through the real clients / wrapper classes; every case is an implementation run"
# Genuine defects of the unchanged tree that the scenarios below report; they stay disabled until /repo is repaired
# (enable with VERIF_ENABLE_PENDING=1, e.g. to test a repair: notes/I2-defect-1.py, notes/I2-defect-1.patch).
PENDING_DEFECTS = {}  # I2-defect-1 (decimal extra keyword arguments in exponent notation) was repaired in /repo
COEFFS = (1, 5, 12, 85, 100, 1230, 123456789)
DECIMALS = [D(c).scaleb(e) for c in COEFFS for e in range(-12, 13)]
LONG_DECIMALS = [D("123456789012.123456789012"), D("999999999999.999999999999"), D("123456789012.12345678901234567"),
                 D("1.0000000000000000000000000001"), D(0.1), D("1234.56789012"), D("1234567.5"),
                 D("0.000000000001234567890123456789")]
FOUR = (D("1.5"), D("0.00000085"), D("1E+3"), D("1234.5678"))
PLAIN = re.compile(r"^\d+(\.\d+)?$")
PB = bs.Pair("BTC", "USDT")
PS = bs.Pair("BTC", "USD")
BUY, SELL = bs.OrderOperation.BUY, bs.OrderOperation.SELL
ONE = D("1")
B_PAIRS = ((PB, "BTCUSDT"), (bs.Pair("ETH", "BTC"), "ETHBTC"))
S_PAIRS = ((PS, "btcusd"), (bs.Pair("ETH", "EUR"), "etheur"))
SIDES = ((BUY, "BUY", "buy"), (SELL, "SELL", "sell"))
ACCS = ("spot", "cross", "iso")
ORDER_PATH = {"spot": "/api/v3/order", "cross": "/sapi/v1/margin/order", "iso": "/sapi/v1/margin/order"}
OCO_PATH = {"spot": "/api/v3/order/oco", "cross": "/sapi/v1/margin/order/oco", "iso": "/sapi/v1/margin/order/oco"}


class Bool:
    """Expected boolean parameter (compared case-insensitively with true / false)."""

    def __init__(self, value):
        self.value = value

    def __repr__(self):
        return f"Bool({self.value})"


class Opt:
    """Expected value of a parameter that may also be absent (an exchange default that the caller did not set)."""

    def __init__(self, inner):
        self.inner = inner

    def __repr__(self):
        return f"Opt({self.inner!r})"


def contexts():
    """(label, factory of the caller's decimal context or None for the default one)."""
    def reduced(prec, traps=False):
        def make():
            ctx = decimal.Context(prec=prec)
            if traps:
                ctx.traps[decimal.Inexact] = True
                ctx.traps[decimal.Rounded] = True
            return ctx
        return make
    return [("default", None), ("prec8", reduced(8)), ("prec12", reduced(12)), ("prec8-traps", reduced(8, True))]


def _acc(obj, acc):
    return {"spot": obj.spot_account, "cross": obj.cross_margin_account, "iso": obj.isolated_margin_account}[acc]


def _margin_keys(acc, exp, side_effect=None, raw=False):
    if acc != "spot":
        exp["isIsolated"] = Bool(acc == "iso")
        if side_effect is not None:
            exp["sideEffectType"] = side_effect
        elif not raw:
            exp["sideEffectType"] = Opt("NO_SIDE_EFFECT")
    return exp


def outbound_entries(be, se, bc, sc):
    """name -> (fn(x) -> coroutine, method, path, expect(x) -> exact expected parameter dict). x travels in EVERY decimal
    argument of the entry point (all notations for every argument)."""
    E = {}
    for acc in ACCS:
        a = _acc(be, acc)
        path, oco_path = ORDER_PATH[acc], OCO_PATH[acc]
        E[f"binance.{acc}.market.amount"] = (
            lambda x, a=a: a.create_market_order(BUY, PB, amount=x), "POST", path,
            lambda x, acc=acc: _margin_keys(acc, dict(symbol="BTCUSDT", side="BUY", type="MARKET", quantity=x)))
        E[f"binance.{acc}.market.quote_amount"] = (
            lambda x, a=a: a.create_market_order(SELL, B_PAIRS[1][0], quote_amount=x), "POST", path,
            lambda x, acc=acc: _margin_keys(acc, dict(symbol="ETHBTC", side="SELL", type="MARKET", quoteOrderQty=x)))
        E[f"binance.{acc}.limit"] = (
            lambda x, a=a: a.create_limit_order(SELL, PB, x, x), "POST", path,
            lambda x, acc=acc: _margin_keys(acc, dict(symbol="BTCUSDT", side="SELL", type="LIMIT", timeInForce="GTC", quantity=x, price=x)))
        E[f"binance.{acc}.stop_limit"] = (
            lambda x, a=a: a.create_stop_limit_order(BUY, B_PAIRS[1][0], x, x, x), "POST", path,
            lambda x, acc=acc: _margin_keys(acc, dict(symbol="ETHBTC", side="BUY", type="STOP_LOSS_LIMIT", timeInForce="GTC", quantity=x,
                                                      price=x, stopPrice=x)))
        E[f"binance.{acc}.oco"] = (
            lambda x, a=a: a.create_oco_order(SELL, PB, x, x, x, stop_limit_price=x), "POST", oco_path,
            lambda x, acc=acc: _margin_keys(acc, dict(symbol="BTCUSDT", side="SELL", stopLimitTimeInForce="GTC", quantity=x, price=x,
                                                      stopPrice=x, stopLimitPrice=x)))
        E[f"binance.{acc}.oco.no_stop_limit"] = (
            lambda x, a=a: a.create_oco_order(BUY, PB, x, x, x), "POST", oco_path,
            lambda x, acc=acc: _margin_keys(acc, dict(symbol="BTCUSDT", side="BUY", quantity=x, price=x, stopPrice=x)))
    E["binance.cross.transfer_in"] = (lambda x: be.cross_margin_account.transfer_from_spot_account("BTC", x), "POST",
                                      "/sapi/v1/margin/transfer", lambda x: dict(asset="BTC", type="1", amount=x))
    E["binance.cross.transfer_out"] = (lambda x: be.cross_margin_account.transfer_to_spot_account("BTC", x), "POST",
                                       "/sapi/v1/margin/transfer", lambda x: dict(asset="BTC", type="2", amount=x))
    E["binance.iso.transfer_in"] = (lambda x: be.isolated_margin_account.transfer_from_spot_account("BTC", PB, x), "POST",
                                    "/sapi/v1/margin/isolated/transfer",
                                    lambda x: dict(asset="BTC", symbol="BTCUSDT", transFrom="SPOT", transTo="ISOLATED_MARGIN", amount=x))
    E["binance.iso.transfer_out"] = (lambda x: be.isolated_margin_account.transfer_to_spot_account("USDT", PB, x), "POST",
                                     "/sapi/v1/margin/isolated/transfer",
                                     lambda x: dict(asset="USDT", symbol="BTCUSDT", transFrom="ISOLATED_MARGIN", transTo="SPOT", amount=x))
    # raw clients
    E["binance.client.spot.create_order"] = (
        lambda x: bc.spot_account.create_order("BTCUSDT", "BUY", "STOP_LOSS_LIMIT", time_in_force="GTC", quantity=x, price=x, stop_price=x),
        "POST", "/api/v3/order",
        lambda x: dict(symbol="BTCUSDT", side="BUY", type="STOP_LOSS_LIMIT", timeInForce="GTC", quantity=x, price=x, stopPrice=x))
    E["binance.client.cross.create_order.quote"] = (
        lambda x: bc.cross_margin_account.create_order("BTCUSDT", "SELL", "MARKET", quote_order_qty=x),
        "POST", "/sapi/v1/margin/order",
        lambda x: dict(symbol="BTCUSDT", side="SELL", type="MARKET", quoteOrderQty=x, isIsolated=Bool(False)))
    E["binance.client.spot.create_oco"] = (
        lambda x: bc.spot_account.create_oco("BTCUSDT", "SELL", x, x, x, stop_limit_price=x, stop_limit_time_in_force="GTC"),
        "POST", "/api/v3/order/oco",
        lambda x: dict(symbol="BTCUSDT", side="SELL", quantity=x, price=x, stopPrice=x, stopLimitPrice=x, stopLimitTimeInForce="GTC"))
    E["binance.client.iso.create_oco"] = (
        lambda x: bc.isolated_margin_account.create_oco("BTCUSDT", "SELL", x, x, x),
        "POST", "/sapi/v1/margin/order/oco",
        lambda x: dict(symbol="BTCUSDT", side="SELL", quantity=x, price=x, stopPrice=x, isIsolated=Bool(True)))
    # bitstamp
    E["bitstamp.market"] = (lambda x: se.create_market_order(BUY, PS, x), "POST", "/api/v2/buy/market/btcusd/", lambda x: dict(amount=x))
    E["bitstamp.limit"] = (lambda x: se.create_limit_order(SELL, PS, x, x), "POST", "/api/v2/sell/btcusd/", lambda x: dict(amount=x, price=x))
    E["bitstamp.instant"] = (lambda x: se.create_instant_order(SELL, PS, x, amount_in_counter=True), "POST",
                             "/api/v2/sell/instant/btcusd/", lambda x: dict(amount=x, amount_in_counter=Bool(True)))
    E["bitstamp.instant.buy"] = (lambda x: se.create_instant_order(BUY, S_PAIRS[1][0], x), "POST", "/api/v2/buy/instant/etheur/",
                                 lambda x: dict(amount=x, amount_in_counter=Opt(Bool(False))))
    E["bitstamp.client.limit"] = (lambda x: sc.create_limit_order("buy", "btcusd", x, x), "POST", "/api/v2/buy/btcusd/",
                                  lambda x: dict(amount=x, price=x))
    E["bitstamp.client.market"] = (lambda x: sc.create_market_order("sell", "btcusd", x), "POST", "/api/v2/sell/market/btcusd/",
                                   lambda x: dict(amount=x))
    E["bitstamp.client.instant"] = (lambda x: sc.create_instant_order("sell", "etheur", x, amount_in_counter=True), "POST",
                                    "/api/v2/sell/instant/etheur/", lambda x: dict(amount=x, amount_in_counter=Bool(True)))
    return E


def kwarg_entries(be, se, bc, sc):
    """Decimal-valued EXTRA keyword arguments on every order entry point (PENDING: I2-defect-1)."""
    E = {}
    for acc in ACCS:
        a, c = _acc(be, acc), _acc(bc, acc)
        path, oco_path = ORDER_PATH[acc], OCO_PATH[acc]
        E[f"binance.{acc}.market.kwarg"] = (
            lambda x, a=a: a.create_market_order(BUY, PB, amount=ONE, icebergQty=x), "POST", path,
            lambda x, acc=acc: _margin_keys(acc, dict(symbol="BTCUSDT", side="BUY", type="MARKET", quantity=ONE, icebergQty=x)))
        E[f"binance.{acc}.limit.kwarg"] = (
            lambda x, a=a: a.create_limit_order(SELL, PB, ONE, ONE, icebergQty=x), "POST", path,
            lambda x, acc=acc: _margin_keys(acc, dict(symbol="BTCUSDT", side="SELL", type="LIMIT", timeInForce="GTC", quantity=ONE,
                                                      price=ONE, icebergQty=x)))
        E[f"binance.{acc}.stop_limit.kwarg"] = (
            lambda x, a=a: a.create_stop_limit_order(BUY, PB, ONE, ONE, ONE, icebergQty=x), "POST", path,
            lambda x, acc=acc: _margin_keys(acc, dict(symbol="BTCUSDT", side="BUY", type="STOP_LOSS_LIMIT", timeInForce="GTC",
                                                      quantity=ONE, price=ONE, stopPrice=ONE, icebergQty=x)))
        E[f"binance.{acc}.oco.kwarg"] = (
            lambda x, a=a: a.create_oco_order(SELL, PB, ONE, ONE, ONE, limitIcebergQty=x), "POST", oco_path,
            lambda x, acc=acc: _margin_keys(acc, dict(symbol="BTCUSDT", side="SELL", quantity=ONE, price=ONE, stopPrice=ONE,
                                                      limitIcebergQty=x)))
        E[f"binance.client.{acc}.create_order.kwarg"] = (
            lambda x, c=c: c.create_order("BTCUSDT", "BUY", "LIMIT", time_in_force="GTC", quantity=ONE, price=ONE, icebergQty=x), "POST",
            path, lambda x, acc=acc: _margin_keys(acc, dict(symbol="BTCUSDT", side="BUY", type="LIMIT", timeInForce="GTC", quantity=ONE,
                                                            price=ONE, icebergQty=x), raw=True))
        E[f"binance.client.{acc}.create_oco.kwarg"] = (
            lambda x, c=c: c.create_oco("BTCUSDT", "SELL", ONE, ONE, ONE, stopIcebergQty=x), "POST", oco_path,
            lambda x, acc=acc: _margin_keys(acc, dict(symbol="BTCUSDT", side="SELL", quantity=ONE, price=ONE, stopPrice=ONE,
                                                      stopIcebergQty=x), raw=True))
    E["bitstamp.market.kwarg"] = (lambda x: se.create_market_order(BUY, PS, ONE, some_amount=x), "POST", "/api/v2/buy/market/btcusd/",
                                  lambda x: dict(amount=ONE, some_amount=x))
    E["bitstamp.limit.kwarg"] = (lambda x: se.create_limit_order(SELL, PS, ONE, ONE, some_price=x), "POST", "/api/v2/sell/btcusd/",
                                 lambda x: dict(amount=ONE, price=ONE, some_price=x))
    E["bitstamp.instant.kwarg"] = (lambda x: se.create_instant_order(BUY, PS, ONE, some_amount=x), "POST", "/api/v2/buy/instant/btcusd/",
                                   lambda x: dict(amount=ONE, amount_in_counter=Opt(Bool(False)), some_amount=x))
    E["bitstamp.client.limit.kwarg"] = (lambda x: sc.create_limit_order("sell", "btcusd", ONE, ONE, limit_price=x), "POST",
                                        "/api/v2/sell/btcusd/", lambda x: dict(amount=ONE, price=ONE, limit_price=x))
    E["bitstamp.client.market.kwarg"] = (lambda x: sc.create_market_order("buy", "btcusd", ONE, some_amount=x), "POST",
                                         "/api/v2/buy/market/btcusd/", lambda x: dict(amount=ONE, some_amount=x))
    E["bitstamp.client.instant.kwarg"] = (lambda x: sc.create_instant_order("buy", "btcusd", ONE, some_amount=x), "POST",
                                          "/api/v2/buy/instant/btcusd/",
                                          lambda x: dict(amount=ONE, amount_in_counter=Opt(Bool(False)), some_amount=x))
    return E


VARIANT_GROUPS = ([f"binance.{acc}.{t}" for acc in ACCS for t in ("market", "limit", "stop_limit", "oco")] +
                  [f"binance.client.{acc}.{t}" for acc in ACCS for t in ("create_order", "create_oco")] +
                  ["bitstamp.exchange", "bitstamp.client"])


def _subsets(items):
    for n in range(len(items) + 1):
        for sub in itertools.combinations(items, n):
            yield dict(sub)


def variant_cases(group, be, se, bc, sc):
    """Yields (label, fn() -> coroutine, method, path, exact expected parameter dict, non-trivial?) for every combination of the
    options of one group of entry points. Four pairwise different decimals are rotated through the decimal arguments, so that
    an argument that ends up in another parameter is seen."""
    parts = group.split(".")
    rots = [FOUR[r:] + FOUR[:r] for r in range(4)]
    if parts[0] == "binance" and parts[1] != "client":
        acc, typ = parts[1], parts[2]
        a = _acc(be, acc)
        ses = (None,) if acc == "spot" else (None, "MARGIN_BUY", "AUTO_REPAY")
        for (op, side, _), (pair, sym), cid, sef, (q, p, sp, slp) in itertools.product(SIDES, B_PAIRS, (None, "my-id_1"), ses, rots):
            if typ == "oco" and cid is not None:
                continue   # an order list has three client ids of its own (below)
            kw = {} if sef is None else dict(side_effect_type=sef)
            base = dict(symbol=sym, side=side)
            if cid is not None and typ != "oco":
                kw["client_order_id"] = cid
                base["newClientOrderId"] = cid
            if typ == "market":
                for mode, extra in itertools.product(("amount", "quote"), (None, "FULL")):
                    kw2 = dict(kw, **({"amount": q} if mode == "amount" else {"quote_amount": q}))
                    exp = dict(base, type="MARKET", **({"quantity": q} if mode == "amount" else {"quoteOrderQty": q}))
                    if extra:
                        kw2["newOrderRespType"] = extra
                        exp["newOrderRespType"] = extra
                    yield ((side, sym, cid, sef, mode, extra, str(q)), (lambda a=a, op=op, pair=pair, kw2=kw2: a.create_market_order(op, pair, **kw2)),
                           "POST", ORDER_PATH[acc], _margin_keys(acc, exp, sef), bool(cid or sef or extra))
            elif typ in ("limit", "stop_limit"):
                for tif in (None, "IOC", "FOK"):
                    kw2 = dict(kw, **({} if tif is None else {"time_in_force": tif}))
                    exp = dict(base, timeInForce=tif or "GTC", quantity=q, price=p)
                    if typ == "limit":
                        exp["type"] = "LIMIT"
                        fn = (lambda a=a, op=op, pair=pair, q=q, p=p, kw2=kw2: a.create_limit_order(op, pair, q, p, **kw2))
                    else:
                        exp["type"] = "STOP_LOSS_LIMIT"
                        exp["stopPrice"] = sp
                        fn = (lambda a=a, op=op, pair=pair, q=q, p=p, sp=sp, kw2=kw2: a.create_stop_limit_order(op, pair, q, sp, p, **kw2))
                    yield ((side, sym, cid, sef, tif, str(q)), fn, "POST", ORDER_PATH[acc], _margin_keys(acc, exp, sef), bool(cid or sef or tif))
            else:
                for with_slp, sltif, ids in itertools.product((False, True), (None, "FOK"), (False, True)):
                    kw2 = dict(kw)
                    exp = dict(base, quantity=q, price=p, stopPrice=sp)
                    if with_slp:
                        kw2["stop_limit_price"] = slp
                        exp["stopLimitPrice"] = slp
                        exp["stopLimitTimeInForce"] = sltif or "GTC"
                    elif sltif is not None:
                        exp["stopLimitTimeInForce"] = Opt(sltif)   # a time in force without a stop-limit price: left open
                    if sltif is not None:
                        kw2["stop_limit_time_in_force"] = sltif
                    if ids:
                        kw2.update(list_client_order_id="list-1", limit_client_order_id="limit-1", stop_client_order_id="stop-1")
                        exp.update(listClientOrderId="list-1", limitClientOrderId="limit-1", stopClientOrderId="stop-1")
                    yield ((side, sym, sef, with_slp, sltif, ids, str(q)),
                           (lambda a=a, op=op, pair=pair, q=q, p=p, sp=sp, kw2=kw2: a.create_oco_order(op, pair, q, p, sp, **kw2)),
                           "POST", OCO_PATH[acc], _margin_keys(acc, exp, sef), bool(sef or with_slp or sltif or ids))
    elif parts[0] == "binance":
        acc, typ = parts[2], parts[3]
        c = _acc(bc, acc)
        q, p, sp, slp = FOUR
        if typ == "create_order":
            options = [("time_in_force", ("timeInForce", "IOC")), ("quantity", ("quantity", q)), ("quote_order_qty", ("quoteOrderQty", p)),
                       ("price", ("price", sp)), ("stop_price", ("stopPrice", slp)), ("new_client_order_id", ("newClientOrderId", "cid:/1")),
                       ("newOrderRespType", ("newOrderRespType", "RESULT"))]
            if acc != "spot":
                options.append(("side_effect_type", ("sideEffectType", "AUTO_REPAY")))
            for (_, side, _), (_, sym), sub in itertools.product(SIDES, B_PAIRS, _subsets(options)):
                kw = {k: v[1] for k, v in sub.items()}
                exp = dict(symbol=sym, side=side, type="TAKE_PROFIT_LIMIT", **{v[0]: v[1] for v in sub.values()})
                yield ((side, sym, tuple(sorted(sub))), (lambda c=c, sym=sym, side=side, kw=kw: c.create_order(sym, side, "TAKE_PROFIT_LIMIT", **kw)),
                       "POST", ORDER_PATH[acc], _margin_keys(acc, exp, raw=True), bool(sub))
        else:
            options = [("stop_limit_price", ("stopLimitPrice", slp)), ("stop_limit_time_in_force", ("stopLimitTimeInForce", "IOC")),
                       ("list_client_order_id", ("listClientOrderId", "list 1")), ("limit_client_order_id", ("limitClientOrderId", "limit-1")),
                       ("stop_client_order_id", ("stopClientOrderId", "stop-1")), ("selfTradePreventionMode", ("selfTradePreventionMode", "NONE"))]
            if acc != "spot":
                options.append(("side_effect_type", ("sideEffectType", "MARGIN_BUY")))
            for (_, side, _), (_, sym), sub in itertools.product(SIDES, B_PAIRS, _subsets(options)):
                kw = {k: v[1] for k, v in sub.items()}
                exp = dict(symbol=sym, side=side, quantity=q, price=p, stopPrice=sp, **{v[0]: v[1] for v in sub.values()})
                yield ((side, sym, tuple(sorted(sub))), (lambda c=c, sym=sym, side=side, kw=kw: c.create_oco(sym, side, q, p, sp, **kw)),
                       "POST", OCO_PATH[acc], _margin_keys(acc, exp, raw=True), bool(sub))
    else:
        exchange_level = parts[1] == "exchange"
        for (op, _, action), (pair, sym), cid, (q, p, _, _) in itertools.product(SIDES, S_PAIRS, (None, "my id/1"), rots):
            kw = {} if cid is None else dict(client_order_id=cid)
            base = {} if cid is None else dict(client_order_id=cid)
            tgt = (op, pair) if exchange_level else (action, sym)
            o = se if exchange_level else sc
            yield (("market", action, sym, cid, str(q)), (lambda o=o, tgt=tgt, q=q, kw=kw: o.create_market_order(*tgt, q, **kw)), "POST",
                   f"/api/v2/{action}/market/{sym}/", dict(base, amount=q), bool(cid))
            for daily in (None, "True"):
                kw2 = dict(kw, **({} if daily is None else {"daily_order": daily}))
                exp = dict(base, amount=q, price=p, **({} if daily is None else {"daily_order": daily}))
                yield (("limit", action, sym, cid, daily, str(q)), (lambda o=o, tgt=tgt, q=q, p=p, kw2=kw2: o.create_limit_order(*tgt, q, p, **kw2)),
                       "POST", f"/api/v2/{action}/{sym}/", exp, bool(cid or daily))
            for aic in ((None, False, True) if action == "sell" else (None, False)):
                kw2 = dict(kw, **({} if aic is None else {"amount_in_counter": aic}))
                exp = dict(base, amount=q, amount_in_counter=Bool(True) if aic else Opt(Bool(False)))
                yield (("instant", action, sym, cid, aic, str(q)), (lambda o=o, tgt=tgt, q=q, kw2=kw2: o.create_instant_order(*tgt, q, **kw2)),
                       "POST", f"/api/v2/{action}/instant/{sym}/", exp, bool(cid or aic))


def compare_params(req, method, path, expect, sent=None):
    """Exact comparison of what the server received with the expected parameter dict -> [(clause, detail)]."""
    bad = []
    pairs = urllib.parse.parse_qsl(req["body"].decode(), keep_blank_values=True) + \
        urllib.parse.parse_qsl(req["raw_path"].partition("?")[2], keep_blank_values=True)
    pairs = [(k, v) for k, v in pairs if k not in ("timestamp", "signature")]   # C16's business
    params = dict(pairs)
    if len(params) != len(pairs):
        bad.append(("duplicate-parameter", f"parameters transmitted more than once: {sorted(k for k, _ in pairs)}"))
    rpath = req["raw_path"].partition("?")[0]
    if req["method"] != method or rpath != path:
        bad.append(("endpoint", f"{req['method']} {rpath}, expected {method} {path}"))
    for k, e in expect.items():
        optional = isinstance(e, Opt)
        if optional:
            e = e.inner
        v = params.get(k)
        if v is None:
            if not optional:
                bad.append(("decimal-missing" if isinstance(e, D) else "fixed-parameter", f"{k} not transmitted, expected {e!r}"))
        elif isinstance(e, D):
            if not PLAIN.match(v):
                bad.append(("decimal-notation", f"{k}={v!r} is not plain fixed-point notation (sent {e!r})"))
            elif D(v) != e:
                bad.append(("decimal-value", f"{k}={v!r} != {e} (sent {e!r})"))
        elif isinstance(e, Bool):
            if v.lower() != ("true" if e.value else "false"):
                bad.append(("fixed-parameter", f"{k}={v!r}, expected {e.value}"))
        elif v != e:
            bad.append(("fixed-parameter", f"{k}={v!r}, expected {e!r}"))
    for k, v in params.items():
        if k not in expect:
            bad.append(("unset-option-sent", f"{k}={v!r} although it was left unset"))
    return bad


class _Dummy:
    def __getattr__(self, name):
        return _Dummy()

    def __call__(self, *a, **k):
        return None


def pending_enabled():
    return os.environ.get("VERIF_ENABLE_PENDING") == "1"


def scenarios(tier, seed):
    dummies = (_Dummy(), _Dummy(), _Dummy(), _Dummy())
    out = [("out", name) for name in sorted(outbound_entries(*dummies))]
    out += [("outv", group) for group in VARIANT_GROUPS]
    if "I2-defect-1" not in PENDING_DEFECTS or pending_enabled():
        out += [("outk", name) for name in sorted(kwarg_entries(*dummies))]
    try:
        from worlds import payloads
        out += [("in", w["name"]) for w in payloads.WRAPPERS]
        out += [("sums", w["name"]) for w in payloads.WRAPPERS if w["name"].endswith(".OrderInfo")]
        # the same timestamp checks with a local time zone that is not UTC (decoders must not depend on it)
        out += [("in-tz", w["name"], tz) for w in payloads.WRAPPERS for tz in ("EST5EDT,M3.2.0,M11.1.0", "IST-5:30")
                if w.get("ms_timestamps") or w.get("us_timestamps") or w.get("iso_timestamps")]
        out += acct_scenarios(tier)
    except ImportError:
        pass
    return out


class _World:
    """Loopback server + the four client objects of a scenario."""

    async def __aenter__(self):
        from basana.external.binance import exchange as bex, client as bcli
        from basana.external.bitstamp import exchange as sex, client as scli
        H.patch_time()
        self.srv = H.Server()
        await self.srv.start()
        conn = aiohttp.TCPConnector(resolver=H.resolver(self.srv.port))
        self.session = aiohttp.ClientSession(connector=conn)
        d = bs.realtime_dispatcher()
        self.be = bex.Exchange(d, H.KEY, H.SECRET, session=self.session, config_overrides=H.BINANCE_URL)
        self.se = sex.Exchange(d, H.KEY, H.SECRET, session=self.session, config_overrides=H.BITSTAMP_URL)
        self.bc = bcli.APIClient(H.KEY, H.SECRET, session=self.session, config_overrides=H.BINANCE_URL)
        self.sc = scli.APIClient(H.KEY, H.SECRET, session=self.session, config_overrides=H.BITSTAMP_URL)
        return self

    async def __aexit__(self, *exc):
        await self.session.close()
        await self.srv.stop()

    @property
    def objs(self):
        return self.be, self.se, self.bc, self.sc


async def _send(srv, fn, ctx_factory=None):
    """One call under the caller's decimal context -> (error or None, received requests)."""
    srv.reqs.clear()
    try:
        if ctx_factory is None:
            await fn()
        else:
            with decimal.localcontext(ctx_factory()):
                await fn()
    except Exception as e:  # noqa
        return ("client-raised", f"{type(e).__name__}: {e}"), list(srv.reqs)
    return None, list(srv.reqs)


async def _outbound(kind, name, res, only=None):
    async with _World() as w:
        table = outbound_entries(*w.objs) if kind == "out" else kwarg_entries(*w.objs)
        fn, method, path, expect = table[name]
        for label, ctx_factory in contexts():
            prec = 28 if ctx_factory is None else ctx_factory().prec
            for x in DECIMALS + LONG_DECIMALS:
                if only is not None and (str(x), label) != only:
                    continue
                err, reqs = await _send(w.srv, lambda: fn(x), ctx_factory)
                res.executions += 1
                res.transitions += 1
                res.validated += 1
                key = h64((name, str(x), label))
                res.states.add(key)
                if "E" in str(x) or len(x.as_tuple().digits) > prec:
                    res.nontrivial.add(key)
                bad = [err] if err else []
                if not err:
                    if len(reqs) != 1:
                        bad.append(("endpoint", f"{len(reqs)} requests received"))
                    else:
                        bad += compare_params(reqs[0], method, path, expect(x))
                    if not res.samples and reqs:
                        res.samples.append(dict(entry=name, decimal=str(x), context=label, request=reqs[0]["method"] + " " + reqs[0]["raw_path"],
                                                body=reqs[0]["body"].decode()))
                res.outcomes["ok" if not bad else "bad"] += 1
                for clause, detail in bad:
                    ctx_note = "" if label == "default" else f" under the caller's decimal context {label}"
                    res.violation(f"{PROPERTY}:out:{clause}:{name.split('.')[0]}" + (":kwarg" if kind == "outk" else "") +
                                  ("" if label == "default" else ":reduced-context"),
                                  f"{detail}; entry={name} decimal={x!r}{ctx_note}",
                                  dict(kind=kind, entry=name, decimal=str(x), context=label), size=len(str(x)) + (0 if label == "default" else 100))


async def _variants(group, res, only=None):
    async with _World() as w:
        for label, fn, method, path, expect, nontrivial in variant_cases(group, *w.objs):
            if only is not None and repr(label) != only:
                continue
            err, reqs = await _send(w.srv, fn)
            res.executions += 1
            res.transitions += 1
            res.validated += 1
            key = h64((group, label))
            res.states.add(key)
            if nontrivial:
                res.nontrivial.add(key)
            bad = [err] if err else []
            if not err:
                if len(reqs) != 1:
                    bad.append(("endpoint", f"{len(reqs)} requests received"))
                else:
                    bad += compare_params(reqs[0], method, path, expect)
                if not res.samples and reqs and nontrivial:
                    res.samples.append(dict(group=group, options=repr(label), request=reqs[0]["method"] + " " + reqs[0]["raw_path"],
                                            body=reqs[0]["body"].decode()))
            res.outcomes["ok" if not bad else "bad"] += 1
            for clause, detail in bad:
                res.violation(f"{PROPERTY}:out:{clause}:{group.split('.')[0]}:options", f"{detail}; entry group={group} options={label!r} "
                              f"expected parameters={expect!r}", dict(kind="outv", group=group, label=repr(label)), size=len(repr(label)))


# ---- inbound --------------------------------------------------------------------------------------------------------
UTC = datetime.timezone.utc
EP = datetime.datetime(1970, 1, 1, tzinfo=UTC)


def _secs(y, extra=0):
    return int((datetime.datetime(y, 1, 1, tzinfo=UTC) - EP).total_seconds()) + extra


def ms_values():
    out = []
    for y, extra in ((2010, 0), (2024, 86399), (2038, 12345678)):
        base = _secs(y, extra) * 1000
        out += [base + ms for ms in range(1000)]
    for y in range(2010, 2101):
        out += [_secs(y) * 1000, _secs(y) * 1000 - 1]
    return out


def us_values(step):
    out = []
    for y in (2010, 2037, 2039, 2099):
        base = _secs(y, 4321) * 1_000_000
        out += [base + us for us in range(0, 1_000_000, step)]
        out += [base + 999_999, base + 1]
    for y in range(2010, 2101, 10):
        out += [_secs(y) * 1_000_000, _secs(y) * 1_000_000 - 1]
    return out


def _inbound(name, tier, res, only_timestamps=False, tag=""):
    from worlds import payloads
    w = next(x for x in payloads.WRAPPERS if x["name"] == name)

    def build(path, value, prop=None):
        muts = [(path, value)]
        if prop is not None:  # fields that are validated together (e.g. the OHLC of a bar) move together
            muts += [(p2, value) for p2 in w.get("co_set", {}).get(prop, [])]
        return payloads.build(w, muts)[0]

    def record(case_key, nontrivial, bad, case):
        res.executions += 1
        res.transitions += 1
        res.validated += 1
        key = h64(case_key)
        res.states.add(key)
        if nontrivial:
            res.nontrivial.add(key)
        res.outcomes["ok" if not bad else "bad"] += 1
        for clause, detail in bad:
            res.violation(f"{PROPERTY}:in:{clause}:{name}", f"{detail}; {case}", case, size=1)
    for prop, path in ({} if only_timestamps else w.get("decimals", {})).items():
        for x in DECIMALS:
            for text in dict.fromkeys((format(x, "f"), str(x))):
                bad = []
                try:
                    got = payloads.get_attr(build(path, text, prop), prop)
                    if prop in w.get("skip_zero", []) and x == 0:
                        pass
                    elif not isinstance(got, D) or got != x:
                        bad.append(("decimal", f"{prop} decoded {text!r} as {got!r}"))
                except Exception as e:  # noqa
                    bad.append(("exception", f"{prop} on {text!r}: {type(e).__name__}: {e}"))
                record((name, prop, text), "E" in text or "." in text, bad, dict(kind="in", wrapper=name, property=prop, value=text))
    for prop, path in ({} if only_timestamps else w.get("decimals", {})).items():
        if list(path) not in [list(p2) for p2 in w.get("float_fields", [])]:
            continue
        # the exchange sends this field as a JSON number: the decoded decimal must be the number that was printed
        for text in ("0.00319028", "20925.98", "1e-08", "123456.78901234", "0.1", "0.3"):
            bad = []
            try:
                got = payloads.get_attr(build(path, json.loads(text), prop), prop)
                if not isinstance(got, D) or got != D(repr(json.loads(text))):
                    bad.append(("json-number", f"{prop} decoded the JSON number {text} as {got!r}"))
            except Exception as e:  # noqa
                bad.append(("exception", f"{prop} on JSON number {text}: {type(e).__name__}: {e}"))
            record((name, prop, "float", text), True, bad, dict(kind="in", wrapper=name, property=prop, value=text))
    for prop, path in w.get("ms_timestamps", {}).items():
        base_is_str = isinstance(_get(w["payload"], path), str)
        for ts in ms_values():
            bad = []
            exp = EP + datetime.timedelta(milliseconds=ts)
            try:
                got = payloads.get_attr(build(path, str(ts) if base_is_str else ts), prop)
                if got != exp or got.tzinfo is None or got.utcoffset() != datetime.timedelta(0):
                    bad.append(("ms-timestamp", f"{prop} decoded {ts} as {got!r}, expected {exp!r}"))
            except Exception as e:  # noqa
                bad.append(("exception", f"{prop} on {ts}: {type(e).__name__}: {e}"))
            record((name, prop, ts, tag), ts % 1000 != 0, bad, dict(kind="in", wrapper=name, property=prop, value=ts))
    for prop, path in w.get("us_timestamps", {}).items():
        base_is_str = isinstance(_get(w["payload"], path), str)
        for ts in us_values(BOUNDS[tier]["us_step"]):
            bad = []
            exp = EP + datetime.timedelta(microseconds=ts)
            try:
                got = payloads.get_attr(build(path, str(ts) if base_is_str else ts), prop)
                if got != exp or got.tzinfo is None or got.utcoffset() != datetime.timedelta(0):
                    bad.append(("us-timestamp", f"{prop} decoded {ts} as {got!r}, expected {exp!r}"))
            except Exception as e:  # noqa
                bad.append(("exception", f"{prop} on {ts}: {type(e).__name__}: {e}"))
            record((name, prop, ts, tag), ts % 1_000_000 != 0, bad, dict(kind="in", wrapper=name, property=prop, value=ts))
    for prop, path in w.get("s_timestamps", {}).items():
        base_is_str = isinstance(_get(w["payload"], path), str)
        for y in range(2010, 2101):
            for ts in (_secs(y), _secs(y) - 1, _secs(y, 4321)):
                bad = []
                exp = EP + datetime.timedelta(seconds=ts)
                try:
                    got = payloads.get_attr(build(path, str(ts) if base_is_str else ts), prop)
                    if got != exp or got.tzinfo is None:
                        bad.append(("s-timestamp", f"{prop} decoded {ts} as {got!r}, expected {exp!r}"))
                except Exception as e:  # noqa
                    bad.append(("exception", f"{prop} on {ts}: {type(e).__name__}: {e}"))
                record((name, prop, ts), True, bad, dict(kind="in", wrapper=name, property=prop, value=ts))
    for prop, path in w.get("iso_timestamps", {}).items():
        # "YYYY-MM-DD HH:MM:SS[.ffffff]" strings are UTC wall-clock times
        for y in (2010, 2024, 2038, 2100):
            for text, exp in ((f"{y}-06-15 12:34:56.123456", datetime.datetime(y, 6, 15, 12, 34, 56, 123456, tzinfo=UTC)),
                              (f"{y}-01-01 00:00:00.000000", datetime.datetime(y, 1, 1, tzinfo=UTC))):
                bad = []
                try:
                    got = payloads.get_attr(build(path, text), prop)
                    if got != exp or got.tzinfo is None or got.utcoffset() != datetime.timedelta(0):
                        bad.append(("iso-timestamp", f"{prop} decoded {text!r} as {got!r}, expected {exp!r}"))
                except Exception as e:  # noqa
                    bad.append(("exception", f"{prop} on {text!r}: {type(e).__name__}: {e}"))
                record((name, prop, text, tag), True, bad, dict(kind="in", wrapper=name, property=prop, value=text))
    lib_tables = {} if only_timestamps or not w.get("statuses") else payloads.library_status_tables()
    for prop, spec in ({} if only_timestamps else w.get("statuses", {})).items():
        if_known = spec.get("if_known", {})
        alphabet = dict(spec["table"])
        alphabet.update(if_known)
        for status in lib_tables.get(spec.get("family"), {}):
            alphabet.setdefault(status, None)     # known to the library only: fed, counted, not judged
        for status, exp in alphabet.items():
            bad = []
            note = None
            try:
                got = payloads.get_attr(build(spec["path"], status), prop)
                if exp is None:
                    note = "status-not-in-harness-table"
                elif got is not exp:
                    bad.append(("status", f"{prop} for status {status!r} is {got!r}, expected {exp!r}"))
            except Exception as e:  # noqa
                if status in spec["table"]:
                    bad.append(("exception", f"{prop} on {status!r}: {type(e).__name__}: {e}"))
                else:
                    note = "newer-status-refused-loudly"   # no verdict: the documentation is not available offline
            record((name, prop, status), True, bad, dict(kind="in", wrapper=name, property=prop, value=status))
            if note:
                res.extra[note] += 1
    if not res.samples:
        res.samples.append(dict(kind="in", wrapper=name, decimals=sorted(w.get("decimals", {})),
                                timestamps=sorted(list(w.get("ms_timestamps", {})) + list(w.get("us_timestamps", {})))))


def _sums(name, tier, res):
    """Aggregates decoded from lists (fees per asset, filled amounts): exact sums over every sequence of <= 4 parts."""
    import itertools
    from worlds import payloads
    w = payloads.BY_NAME[name]
    maxn = 4 if tier == "quick" else 5
    if name.startswith("binance"):
        assets = ("BNB", "BTC", "USDT")
        values = ("0.00001234", "0.00000766", "0")
        base_trade = w["payload"]["trades"][0]
        for n in range(0, maxn + 1):
            for seq in itertools.product(itertools.product(assets, values), repeat=n):
                j = copy.deepcopy(w["payload"])
                j["trades"] = [dict(base_trade, id=1000 + i, commission=v, commissionAsset=a) for i, (a, v) in enumerate(seq)]
                exp = collections.defaultdict(D)
                for a, v in seq:
                    if D(v):
                        exp[a] += D(v)
                bad = []
                try:
                    got = dict(w["make"](j).fees)
                    if {k: v for k, v in got.items() if v} != dict(exp):
                        bad.append(("fees-sum", f"fees {got} for trade commissions {seq}, expected {dict(exp)}"))
                except Exception as e:  # noqa
                    bad.append(("exception", f"{type(e).__name__}: {e}"))
                _record(res, name, (name, "fees", seq), n >= 2, bad, dict(kind="sums", wrapper=name, parts=[list(x) for x in seq]))
    else:
        amounts = (("0.01000000", "193.81000", "0.12000"), ("0.00500000", "96.91000", "0.06000"), ("0.00000001", "0.00019", "0"))
        base_tx = w["payload"]["transactions"][0]
        for n in range(0, maxn + 1):
            for seq in itertools.product(amounts, repeat=n):
                j = copy.deepcopy(w["payload"])
                j["transactions"] = [dict(base_tx, tid=1000 + i, btc=b, usd=u, fee=f) for i, (b, u, f) in enumerate(seq)]
                exp_b = sum((D(b) for b, _, _ in seq), D(0))
                exp_q = sum((D(u) for _, u, _ in seq), D(0))
                exp_f = sum((D(f) for _, _, f in seq), D(0))
                bad = []
                try:
                    o = w["make"](j)
                    if o.amount_filled != exp_b or o.quote_amount_filled != exp_q:
                        bad.append(("filled-sum", f"filled {o.amount_filled}/{o.quote_amount_filled} for transactions {seq}"))
                    if sum(o.fees.values(), D(0)) != exp_f or any(k != "USD" for k in o.fees):
                        bad.append(("fees-sum", f"fees {o.fees} for transactions {seq}, expected {exp_f} USD"))
                except Exception as e:  # noqa
                    bad.append(("exception", f"{type(e).__name__}: {e}"))
                _record(res, name, (name, "sums", seq), n >= 2, bad, dict(kind="sums", wrapper=name, parts=[list(x) for x in seq]))
    if not res.samples:
        res.samples.append(dict(kind="sums", wrapper=name, max_parts=maxn))


def _record(res, name, case_key, nontrivial, bad, case):
    res.executions += 1
    res.transitions += 1
    res.validated += 1
    key = h64(case_key)
    res.states.add(key)
    if nontrivial:
        res.nontrivial.add(key)
    res.outcomes["ok" if not bad else "bad"] += 1
    for clause, detail in bad:
        res.violation(f"{PROPERTY}:in:{clause}:{name}", f"{detail}; {case}", case, size=case.get("size", len(case.get("parts", []))))


def _get(j, path):
    for k in path:
        j = j[k]
    return j


# ---- account-level read API against a model exchange -------------------------------------------------------------------
TRADE_OPTIONS = [(a, v) for a in ("BNB", "BTC", "USDT") for v in ("0.00001234", "0")]
FILLABLE = ("PARTIALLY_FILLED", "FILLED", "CANCELED", "PENDING_CANCEL", "EXPIRED")
S_TX_OPTIONS = (("0.01000000", "193.81000", "0.12000"), ("0.00500000", "96.91000", "0.06000"), ("0.00000001", "0.00019", "0"))
S_STATUSES = ("Open", "Finished", "Expired", "Canceled")
B_BAL_VALUES = (("0", "0", "0"), ("0", "1.50000000", "0"), ("0.00000053", "0", "0"), ("0", "0", "0.50000000"), ("2", "0.25", "0.125"))
S_BAL_VALUES = (("0", "0", "0"), ("0", "1.50", "1.50"), ("0.00000053", "0", "0.00000053"), ("28.92", "1.50", "30.42"))


def acct_scenarios(tier):
    from worlds import payloads
    out = []
    for kind in ACCS:
        out += [("acct", "binance", kind, "order_info", st) for st in payloads.BINANCE_ORDER_STATUS]
        out += [("acct", "binance", kind, what) for what in ("open_orders", "balances", "cancel")]
    out += [("acct", "bitstamp", "-", "order_info", st) for st in S_STATUSES]
    out += [("acct", "bitstamp", "-", what) for what in ("open_orders", "balances", "cancel")]
    return out


def _seqs(options, maxn):
    for n in range(maxn + 1):
        yield from itertools.product(options, repeat=n)


def _fmt(x):
    return format(x, "f")


def _ms(ts):
    return datetime.datetime(1970, 1, 1, tzinfo=datetime.timezone.utc) + datetime.timedelta(milliseconds=ts)


def _b_trades(kind, symbol, order_id, seq, first_id):
    from worlds import payloads
    base = payloads.BINANCE_SPOT_TRADE if kind == "spot" else dict(payloads.BINANCE_MARGIN_TRADE, isIsolated=kind == "iso")
    out = []
    for j, (asset, commission) in enumerate(seq):
        price, qty = D(f"{17000 + j}.50"), D(f"0.00{j + 1}00000")
        out.append(dict(base, symbol=symbol, id=first_id + j, orderId=order_id, price=_fmt(price), qty=_fmt(qty), quoteQty=_fmt(price * qty),
                        commission=commission, commissionAsset=asset, time=1668306875519 + 1000 * j + j))
    return out


def _b_order(kind, symbol, order_id, cid, status, side, trades, orig="0.01000000", price="16900.00000000", stop="16850.00000000"):
    from worlds import payloads
    base = payloads.BINANCE_SPOT_ORDER if kind == "spot" else dict(payloads.BINANCE_MARGIN_ORDER, isIsolated=kind == "iso")
    return dict(base, symbol=symbol, orderId=order_id, clientOrderId=cid, status=status, side=side, origQty=orig, price=price, stopPrice=stop,
                executedQty=_fmt(sum((D(t["qty"]) for t in trades), D("0.00000000"))),
                cummulativeQuoteQty=_fmt(sum((D(t["quoteQty"]) for t in trades), D("0.00000000"))),
                time=1668306875519, updateTime=1668306875519 + 5000, _open=payloads.BINANCE_ORDER_STATUS[status])


class _Cmp:
    def __init__(self):
        self.bad = []

    def eq(self, clause, what, got, exp):
        if type(got) is not type(exp) or got != exp:
            self.bad.append((clause, f"{what} is {got!r}, the exchange sent {exp!r}"))

    def decimal(self, what, got, text):
        exp = D(str(text))
        if not isinstance(got, D) or got != exp:
            self.bad.append(("decimal", f"{what} is {got!r}, the exchange sent {text!r}"))

    def call(self, clause, what, fn):
        try:
            return fn()
        except Exception as e:  # noqa
            self.bad.append((clause, f"{what} raised {type(e).__name__}: {e}"))
            return None


def _check_b_order_common(c, o, doc, what):
    from worlds import payloads
    c.eq("field", f"{what}.id", c.call("exception", f"{what}.id", lambda: o.id), str(doc["orderId"]))
    c.eq("status", f"{what}.is_open (status {doc['status']})", c.call("exception", f"{what}.is_open", lambda: o.is_open),
         payloads.BINANCE_ORDER_STATUS[doc["status"]])
    for attr, key in (("amount", "origQty"), ("amount_filled", "executedQty"), ("quote_amount_filled", "cummulativeQuoteQty"),
                      ("limit_price", "price"), ("stop_price", "stopPrice")):
        if key in doc:
            c.decimal(f"{what}.{attr}", c.call("exception", f"{what}.{attr}", lambda attr=attr: getattr(o, attr)), doc[key])


async def _acct_binance(sc, tier, res, only=None):
    from worlds import payloads
    _, _, kind, what = sc[:4]
    async with _World() as w:
        acct = _acc(w.be, kind)
        other_margin = {"spot": ("cross", "iso"), "cross": ("iso",), "iso": ("cross",)}[kind]

        async def case(label, model, call, check, nontrivial):
            if only is not None and repr(label) != only:
                return
            w.srv.route = model.route
            w.srv.reqs.clear()
            c = _Cmp()
            try:
                got = await call()
            except Exception as e:  # noqa
                got = None
                c.bad.append(("exception", f"{type(e).__name__}: {e}; requests: {[(m, k, wh, p) for m, k, wh, p in model.log]}"))
            if not c.bad:
                check(c, got)
            _record(res, f"binance.{kind}.{what}", (sc, label), nontrivial, c.bad,
                    dict(kind="acct", sc=list(sc), label=repr(label), size=len(repr(label))))

        if what == "order_info":
            status = sc[4]
            maxn = BOUNDS[tier]["trades"] if status in FILLABLE else 0
            for seq in _seqs(TRADE_OPTIONS, maxn):
                for (pair, sym), lookup, include in itertools.product(B_PAIRS, ("order_id", "client_order_id"), (None, False)):
                    if include is False and len(seq) > 1:
                        continue
                    other_sym = [s for _, s in B_PAIRS if s != sym][0]
                    model = payloads.BinanceModel()
                    trades = _b_trades(kind, sym, 9001, seq, 5000)
                    doc = _b_order(kind, sym, 9001, "cid-A", status, "BUY" if len(seq) % 2 else "SELL", trades)
                    model.orders[kind] += [doc, _b_order(kind, other_sym, 9001, "cid-A", "FILLED", "BUY",
                                                         _b_trades(kind, other_sym, 9001, (("DECOY", "0.5"),), 6000), orig="0.5")]
                    model.trades[kind][9001] = trades + _b_trades(kind, other_sym, 9001, (("DECOY", "0.5"),), 6000)
                    t3 = _b_trades(kind, sym, 9002, (("DECOY3", "0.125"),), 8000)   # another order on the same symbol and account
                    model.orders[kind].append(_b_order(kind, sym, 9002, "cid-B", "FILLED", "BUY", t3, orig="0.125"))
                    model.trades[kind][9002] = t3
                    for k2 in other_margin:   # same id, same symbol, in the OTHER margin account
                        t2 = _b_trades(k2, sym, 9001, (("DECOY2", "0.25"),), 7000)
                        model.orders[k2].append(_b_order(k2, sym, 9001, "cid-A", "FILLED", "SELL", t2, orig="0.25"))
                        model.trades[k2][9001] = t2
                    kw = dict(order_id="9001") if lookup == "order_id" else dict(client_order_id="cid-A")
                    if include is False:
                        kw["include_trades"] = False

                    def check(c, info, doc=doc, trades=trades, include=include):
                        _check_b_order_common(c, info, doc, "OrderInfo")
                        c.eq("field", "OrderInfo.operation", c.call("exception", "operation", lambda: info.operation),
                             BUY if doc["side"] == "BUY" else SELL)
                        if include is False:
                            return
                        got_trades = c.call("exception", "OrderInfo.trades", lambda: sorted(info.trades, key=lambda t: int(t.id)))
                        if got_trades is None:
                            return
                        c.eq("trades", "the number of trades of the order", len(got_trades), len(trades))
                        for t, td in zip(got_trades, trades):
                            c.eq("trades", f"trade {td['id']}.id", t.id, str(td["id"]))
                            c.eq("trades", f"trade {td['id']}.order_id", t.order_id, str(td["orderId"]))
                            for attr, key in (("price", "price"), ("amount", "qty"), ("quote_amount", "quoteQty"), ("commission", "commission")):
                                c.decimal(f"trade {td['id']}.{attr}", getattr(t, attr), td[key])
                            c.eq("trades", f"trade {td['id']}.commission_asset", t.commission_asset, td["commissionAsset"])
                            c.eq("timestamp", f"trade {td['id']}.datetime", t.datetime, _ms(td["time"]))
                        exp_fees = collections.defaultdict(D)
                        for td in trades:
                            if D(td["commission"]):
                                exp_fees[td["commissionAsset"]] += D(td["commission"])
                        got_fees = c.call("exception", "OrderInfo.fees", lambda: {k: v for k, v in dict(info.fees).items() if v})
                        if got_fees is not None and got_fees != dict(exp_fees):
                            c.bad.append(("fees", f"OrderInfo.fees is {got_fees}, the exchange reported the commissions "
                                                  f"{[(td['commissionAsset'], td['commission']) for td in trades]} for this {doc['status']} order"))
                    await case((seq, sym, lookup, include), model, lambda pair=pair, kw=kw: acct.get_order_info(pair, **kw), check, len(seq) > 0)
        elif what == "open_orders":
            options = [(sym, st) for _, sym in B_PAIRS for st in ("NEW", "PARTIALLY_FILLED", "PENDING_CANCEL")]
            for seq in _seqs(options, BOUNDS[tier]["open_orders"]):
                model = payloads.BinanceModel()
                base = payloads.BINANCE_SPOT_OPEN_ORDER if kind == "spot" else dict(payloads.BINANCE_MARGIN_OPEN_ORDER, isIsolated=kind == "iso")
                for i, (sym, st) in enumerate(seq):
                    model.orders[kind].append(dict(
                        base, symbol=sym, orderId=7000 + i, clientOrderId=f"open-{i}", status=st, origQty=f"0.0{i + 1}000000",
                        executedQty="0.00000000" if st == "NEW" else f"0.00{i + 1}00000", cummulativeQuoteQty="0" if st == "NEW" else f"{i + 1}2.5",
                        price=f"{25000 + i}.10000000", stopPrice=f"{24900 + i}.00000000", time=1676482455273 + i, _open=True))
                model.orders[kind].append(dict(base, symbol=B_PAIRS[0][1], orderId=7900, clientOrderId="done", status="FILLED", _open=False))
                for k2 in other_margin:
                    model.orders[k2].append(dict(base, symbol=B_PAIRS[0][1], orderId=7800, clientOrderId="other-account", status="NEW", _open=True))
                for flt in (None,) + tuple(B_PAIRS):
                    served = [o for o in model.orders[kind] if o["_open"] and (flt is None or o["symbol"] == flt[1])]

                    def check(c, got, served=served):
                        ids = c.call("exception", "ids", lambda: sorted(o.id for o in got))
                        c.eq("open-orders", "the ids of the open orders", ids, sorted(str(o["orderId"]) for o in served))
                        if c.bad:
                            return
                        by_id = {str(o["orderId"]): o for o in served}
                        for o in got:
                            doc = by_id[o.id]
                            _check_b_order_common(c, o, doc, f"OpenOrder {o.id}")
                            c.eq("field", f"OpenOrder {o.id}.client_order_id", o.client_order_id, doc["clientOrderId"])
                            c.eq("timestamp", f"OpenOrder {o.id}.datetime", o.datetime, _ms(doc["time"]))
                    await case((seq, None if flt is None else flt[1]), model,
                               lambda flt=flt: acct.get_open_orders() if flt is None else acct.get_open_orders(flt[0]), check, len(served) > 0)
        elif what == "balances":
            if kind == "iso":
                combos = list(itertools.product(B_BAL_VALUES, B_BAL_VALUES))
                stores = [()] + [((p, cmb),) for p in B_PAIRS for cmb in combos] + \
                    [((B_PAIRS[i][0:2], c1), (B_PAIRS[1 - i][0:2], c2)) for i in (0, 1) for c1 in combos[::3] for c2 in combos[1::4]]
                for store in stores:
                    model = payloads.BinanceModel()
                    for (pair, sym), (bv, qv) in store:
                        doc = copy.deepcopy(payloads.BINANCE_ISOLATED_BALANCE)
                        doc["symbol"] = sym
                        for side, asset, (free, locked, borrowed) in (("baseAsset", pair.base_symbol, bv), ("quoteAsset", pair.quote_symbol, qv)):
                            doc[side].update(asset=asset, free=free, locked=locked, borrowed=borrowed)
                        model.account["iso"]["assets"].append(doc)

                    def check(c, got, store=store):
                        exp = {}
                        for (pair, sym), (bv, qv) in store:
                            exp[(pair.base_symbol, pair.quote_symbol)] = (bv, qv)
                        got_map = c.call("exception", "balances", lambda: {(p.base_symbol, p.quote_symbol): b for p, b in got.items()})
                        if got_map is None:
                            return
                        for key, (bv, qv) in exp.items():
                            if key not in got_map:
                                if any(D(x) for x in bv + qv):
                                    c.bad.append(("balances", f"the isolated balance of {key} ({bv}, {qv}) is missing"))
                                continue
                            for side, vals in (("base_asset_balance", bv), ("quote_asset_balance", qv)):
                                bal = c.call("exception", side, lambda side=side: getattr(got_map[key], side))
                                if bal is None:
                                    continue
                                for attr, text in zip(("available", "locked", "borrowed"), vals):
                                    c.decimal(f"{key}.{side}.{attr}", c.call("exception", attr, lambda attr=attr: getattr(bal, attr)), text)
                                c.decimal(f"{key}.{side}.total", c.call("exception", "total", lambda: bal.total), _fmt(D(vals[0]) + D(vals[1])))
                        for key in got_map:
                            if key not in exp:
                                c.bad.append(("balances", f"a balance for {key} that the exchange did not send"))
                    await case(tuple((sym, cmb) for (_, sym), cmb in store), model, lambda: acct.get_balances(), check, bool(store))
            else:
                values = [v for v in B_BAL_VALUES if kind == "cross" or v[2] == "0"]
                assets = ("BTC", "USDT", "BNB")
                for n in range(BOUNDS[tier]["balances"] + 1):
                    for names in itertools.permutations(assets, n):
                        for vals in itertools.product(values, repeat=n):
                            model = payloads.BinanceModel()
                            rows = []
                            for a, (free, locked, borrowed) in zip(names, vals):
                                row = dict(asset=a, free=free, locked=locked)
                                if kind == "cross":
                                    row = dict(payloads.BINANCE_MARGIN_BALANCE, asset=a, free=free, locked=locked, borrowed=borrowed)
                                rows.append(row)
                            model.account[kind]["balances" if kind == "spot" else "userAssets"] = rows

                            def check(c, got, names=names, vals=vals):
                                for a, v in zip(names, vals):
                                    if a not in got:
                                        if any(D(x) for x in v):
                                            c.bad.append(("balances", f"the balance of {a} (free, locked, borrowed = {v}) is missing"))
                                        continue
                                    attrs = ("available", "locked", "borrowed") if kind == "cross" else ("available", "locked")
                                    for attr, text in zip(attrs, v):
                                        c.decimal(f"{a}.{attr}", c.call("exception", attr, lambda attr=attr: getattr(got[a], attr)), text)
                                    c.decimal(f"{a}.total", c.call("exception", "total", lambda: got[a].total), _fmt(D(v[0]) + D(v[1])))
                                for a in got:
                                    if a not in names:
                                        c.bad.append(("balances", f"a balance for {a} that the exchange did not send"))
                            await case((names, vals), model, lambda: acct.get_balances(), check, n > 0)
        else:  # cancel
            for (pair, sym), lookup, executed, price in itertools.product(B_PAIRS, ("order_id", "client_order_id"),
                                                                        ("0.00000000", "0.00040000"), ("10000.00000000", "0.00000085", "15000")):
                model = payloads.BinanceModel()
                trades = _b_trades(kind, sym, 9001, (), 5000)
                model.orders[kind].append(_b_order(kind, sym, 9001, "cid-A", "NEW", "SELL", trades, price=price))
                base = payloads.BINANCE_SPOT_CANCELED_ORDER if kind == "spot" else dict(payloads.BINANCE_MARGIN_CANCELED_ORDER, isIsolated=kind == "iso")
                doc = dict(base, symbol=sym, orderId=9001 if kind == "spot" else "9001", origClientOrderId="cid-A", price=price, executedQty=executed,
                           cummulativeQuoteQty=_fmt(D(executed) * D(price)), status="CANCELED")
                model.canceled[kind][9001] = doc
                other_sym = [s for _, s in B_PAIRS if s != sym][0]
                model.orders[kind].append(_b_order(kind, other_sym, 9001, "cid-A", "NEW", "BUY", ()))
                model.canceled[kind].setdefault(9001, doc)
                for k2 in other_margin:
                    model.orders[k2].append(_b_order(k2, sym, 9001, "cid-A", "NEW", "BUY", (), orig="0.77"))
                    model.canceled[k2][9001] = dict(doc, origQty="0.77", price="1")
                kw = dict(order_id="9001") if lookup == "order_id" else dict(client_order_id="cid-A")

                def check(c, got, doc=doc):
                    _check_b_order_common(c, got, doc, "CanceledOrder")
                await case((sym, lookup, executed, price), model, lambda pair=pair, kw=kw: acct.cancel_order(pair, **kw), check, True)


async def _acct_bitstamp(sc, tier, res, only=None):
    from worlds import payloads
    what = sc[3]
    async with _World() as w:
        ex = w.se

        async def case(label, model, call, check, nontrivial):
            if only is not None and repr(label) != only:
                return
            w.srv.route = model.route
            w.srv.reqs.clear()
            c = _Cmp()
            try:
                got = await call()
            except Exception as e:  # noqa
                got = None
                c.bad.append(("exception", f"{type(e).__name__}: {e}; requests: {model.log}"))
            if not c.bad:
                check(c, got)
            _record(res, f"bitstamp.{what}", (sc, label), nontrivial, c.bad, dict(kind="acct", sc=list(sc), label=repr(label), size=len(repr(label))))

        if what == "order_info":
            status = sc[4]
            for seq in _seqs(S_TX_OPTIONS, BOUNDS[tier]["trades"]):
                for (pair, sym), lookup in itertools.product(S_PAIRS, ("order_id", "client_order_id")):
                    base_key, quote_key = pair.base_symbol.lower(), pair.quote_symbol.lower()
                    model = payloads.BitstampModel()
                    txs = [{base_key: b, quote_key: q, "fee": f, "price": "19381.00", "datetime": f"2022-09-22 17:44:1{j}.689000",
                            "tid": 248447671 + j, "type": 2} for j, (b, q, f) in enumerate(seq)]
                    doc = dict(payloads.BITSTAMP_ORDER_STATUS, status=status, id=1536137941123072, client_order_id="cid-A",
                               amount_remaining="0.01000000", transactions=txs, _pair=sym, _open_doc=None)
                    decoy = dict(payloads.BITSTAMP_ORDER_STATUS, status="Finished", id=1536137941123073, client_order_id="cid-B",
                                 amount_remaining="0.77", _pair=sym, _open_doc=None,
                                 transactions=[{base_key: "5", quote_key: "7", "fee": "3", "price": "1", "datetime": "2022-09-22 17:44:11.689000",
                                                "tid": 1, "type": 2}])
                    model.orders += [decoy, doc]
                    kw = dict(order_id="1536137941123072") if lookup == "order_id" else dict(client_order_id="cid-A")

                    def check(c, info, seq=seq, pair=pair, status=status):
                        if info is None:
                            c.bad.append(("order-info", "no order info although the exchange knows the order"))
                            return
                        c.eq("field", "OrderInfo.id", c.call("exception", "id", lambda: info.id), "1536137941123072")
                        c.eq("status", f"OrderInfo.is_open (status {status})", c.call("exception", "is_open", lambda: info.is_open),
                             payloads.BITSTAMP_STATUS_TABLE[status])
                        c.decimal("OrderInfo.amount_remaining", c.call("exception", "amount_remaining", lambda: info.amount_remaining), "0.01000000")
                        c.decimal("OrderInfo.amount_filled", c.call("exception", "amount_filled", lambda: info.amount_filled),
                                  _fmt(sum((D(b) for b, _, _ in seq), D(0))))
                        c.decimal("OrderInfo.quote_amount_filled", c.call("exception", "quote_amount_filled", lambda: info.quote_amount_filled),
                                  _fmt(sum((D(q) for _, q, _ in seq), D(0))))
                        fees = c.call("exception", "fees", lambda: {k: v for k, v in dict(info.fees).items() if v})
                        exp_fee = sum((D(f) for _, _, f in seq), D(0))
                        if fees is not None and fees != ({pair.quote_symbol: exp_fee} if exp_fee else {}):
                            c.bad.append(("fees", f"OrderInfo.fees is {fees}, the exchange reported the fees {[f for _, _, f in seq]} "
                                                  f"{pair.quote_symbol} for this {status} order"))
                    await case((seq, sym, lookup), model, lambda pair=pair, kw=kw: ex.get_order_info(pair, **kw), check, len(seq) > 0)
        elif what == "open_orders":
            options = [(i, t) for i in (0, 1) for t in ("0", "1")]
            for seq in _seqs(options, BOUNDS[tier]["open_orders"]):
                model = payloads.BitstampModel()
                for i, (pi, typ) in enumerate(seq):
                    pair, sym = S_PAIRS[pi]
                    od = dict(payloads.BITSTAMP_OPEN_ORDER, id=str(1535407273615360 + i), price=f"{19000 + i}.5", amount=f"0.0{i + 1}204166",
                              amount_at_create=f"0.0{i + 2}000000", type=typ, currency_pair=f"{pair.base_symbol}/{pair.quote_symbol}",
                              datetime=f"2022-09-20 16:11:0{i}", client_order_id=f"open-{i}")
                    model.orders.append(dict(payloads.BITSTAMP_ORDER_STATUS, id=int(od["id"]), _pair=sym, _open_doc=od))
                model.orders.append(dict(payloads.BITSTAMP_ORDER_STATUS, id=99, status="Finished", _pair="btcusd", _open_doc=None))
                for flt in (None,) + tuple(S_PAIRS):
                    served = [o["_open_doc"] for o in model.orders if o["_open_doc"] is not None and (flt is None or o["_pair"] == flt[1])]

                    def check(c, got, served=served):
                        ids = c.call("exception", "ids", lambda: sorted(o.id for o in got))
                        c.eq("open-orders", "the ids of the open orders", ids, sorted(o["id"] for o in served))
                        if c.bad:
                            return
                        by_id = {o["id"]: o for o in served}
                        for o in got:
                            doc = by_id[o.id]
                            c.decimal(f"OpenOrder {o.id}.limit_price", c.call("exception", "limit_price", lambda: o.limit_price), doc["price"])
                            c.decimal(f"OpenOrder {o.id}.amount", c.call("exception", "amount", lambda: o.amount), doc["amount_at_create"])
                            c.eq("field", f"OpenOrder {o.id}.operation", c.call("exception", "operation", lambda: o.operation),
                                 BUY if doc["type"] == "0" else SELL)
                            c.eq("field", f"OpenOrder {o.id}.pair", c.call("exception", "pair", lambda: str(o.pair)), doc["currency_pair"])
                            c.eq("timestamp", f"OpenOrder {o.id}.datetime", c.call("exception", "datetime", lambda: o.datetime),
                                 datetime.datetime.strptime(doc["datetime"], "%Y-%m-%d %H:%M:%S").replace(tzinfo=datetime.timezone.utc))
                    await case((seq, None if flt is None else flt[1]), model,
                               lambda flt=flt: ex.get_open_orders() if flt is None else ex.get_open_orders(flt[0]), check, len(served) > 0)
        elif what == "balances":
            currencies = ("usd", "btc", "eur")
            for n in range(BOUNDS[tier]["balances"] + 1):
                for names in itertools.permutations(currencies, n):
                    for vals in itertools.product(S_BAL_VALUES, repeat=n):
                        model = payloads.BitstampModel()
                        model.balances = [dict(currency=cur, available=a, reserved=r, total=t) for cur, (a, r, t) in zip(names, vals)]

                        def check_one(c, bal, cur, v):
                            for attr, text in zip(("available", "reserved", "total"), v):
                                c.decimal(f"{cur}.{attr}", c.call("exception", attr, lambda attr=attr: getattr(bal, attr)), text)

                        def check(c, got, names=names, vals=vals):
                            for cur, v in zip(names, vals):
                                if cur.upper() not in got:
                                    if any(D(x) for x in v):
                                        c.bad.append(("balances", f"the balance of {cur} (available, reserved, total = {v}) is missing"))
                                    continue
                                check_one(c, got[cur.upper()], cur, v)
                            for cur in got:
                                if cur.lower() not in names:
                                    c.bad.append(("balances", f"a balance for {cur} that the exchange did not send"))
                        await case((names, vals), model, lambda: ex.get_balances(), check, n > 0)
                        for cur, v in zip(names, vals):
                            await case((names, vals, cur), model, lambda cur=cur: ex.get_balance(cur.upper()),
                                       lambda c, got, cur=cur, v=v: check_one(c, got, cur, v), True)
        else:  # cancel: amount and price are JSON numbers
            for amount, price, typ in itertools.product(("0.00319028", "1e-08", "123456.78901234", "0.3"), ("17500", "20925.98", "0.1"), (0, 1)):
                model = payloads.BitstampModel()
                model.canceled["1538604691881987"] = dict(id=1538604691881987, amount=json.loads(amount), price=json.loads(price), type=typ)
                model.canceled["1538604691881988"] = dict(id=1538604691881988, amount=5, price=7, type=1 - typ)

                def check(c, got, amount=amount, price=price, typ=typ):
                    c.eq("field", "CanceledOrder.id", c.call("exception", "id", lambda: got.id), "1538604691881987")
                    c.decimal("CanceledOrder.amount", c.call("exception", "amount", lambda: got.amount), repr(json.loads(amount)))
                    c.decimal("CanceledOrder.limit_price", c.call("exception", "limit_price", lambda: got.limit_price), repr(json.loads(price)))
                    c.eq("field", "CanceledOrder.operation", c.call("exception", "operation", lambda: got.operation), BUY if typ == 0 else SELL)
                for oid in ("1538604691881987", 1538604691881987):
                    await case((amount, price, typ, type(oid).__name__), model, lambda oid=oid: ex.cancel_order(oid), check, True)


def run_scenario(sc, tier):
    res = Result()
    if sc[0] in ("out", "outk"):
        asyncio.run(_outbound(sc[0], sc[1], res))
    elif sc[0] == "outv":
        asyncio.run(_variants(sc[1], res))
    elif sc[0] == "acct":
        asyncio.run(_acct_binance(sc, tier, res) if sc[1] == "binance" else _acct_bitstamp(sc, tier, res))
    elif sc[0] == "sums":
        _sums(sc[1], tier, res)
    elif sc[0] == "in-tz":
        import time as _time
        old = os.environ.get("TZ")
        os.environ["TZ"] = sc[2]
        _time.tzset()
        try:
            _inbound(sc[1], tier, res, only_timestamps=True, tag=sc[2])
        finally:
            if old is None:
                os.environ.pop("TZ", None)
            else:
                os.environ["TZ"] = old
            _time.tzset()
    else:
        _inbound(sc[1], tier, res)
    return res


def replay(rep):
    res = Result()
    if rep["kind"] in ("out", "outk"):
        asyncio.run(_outbound(rep["kind"], rep["entry"], res, only=(rep["decimal"], rep.get("context", "default"))))
        return [v["message"] for v in res.violations]
    if rep["kind"] == "outv":
        asyncio.run(_variants(rep["group"], res, only=rep["label"]))
        return [v["message"] for v in res.violations]
    if rep["kind"] == "acct":
        sc = tuple(rep["sc"])
        asyncio.run(_acct_binance(sc, "quick", res, only=rep["label"]) if sc[1] == "binance" else _acct_bitstamp(sc, "quick", res, only=rep["label"]))
        return [v["message"] for v in res.violations]
    if rep["kind"] == "sums":
        _sums(rep["wrapper"], "quick", res)
        return [v["message"] for v in res.violations if str(rep["parts"][0]) in v["message"]][:5]
    _inbound(rep["wrapper"], "quick", res)
    return [v["message"] for v in res.violations if repr(rep["value"]) in v["message"] or str(rep["value"]) in v["message"]][:5]

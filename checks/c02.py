"""C02 - solvency (DESIGN.md section 3, C02): BFS over operation histories of the real exchange."""
from decimal import Decimal as D

from checks import _exch_common as X
from mc.framework import h64

PROPERTY = "C02"
RULE = ("state = canonical key of the real exchange reached by an operation history (balances, holds, borrowed, open "
        "orders, open loans, last closes, re-index phase); transitions = every action of the configuration's alphabet "
        "(bars, market/limit/stop/stop-limit orders with and without auto-borrow/auto-repay, cancels, loans, repayments, "
        "invalid requests) from every state up to the depth; the solvency oracle runs on every transition. Distinct = "
        "distinct states; non-trivial = reached by a transition that produced order events, a rejection or a loan.")
ASSUMPTIONS = [
    "amounts 1..5 units (x10 in K29), price grid {30,33.37,90,100,110,300}, volumes giving 0/1/2.5/2.75/3/4/10 units of liquidity; configurations of "
    "checks/_exch_common.py (fee x liquidity x lending x precision x initial balances x 1-2 pairs)",
    "strategy actions are issued after at least one bar (orders placed before the first event are a separate scenario)",
    "the synchronous driver is validated against the public-API driver on all short histories (conformance scenarios) "
    "and on every reported violation",
]
SPEC = {
    'quick': [('K21', 'lend', 4),
              ('K37', 'lend', 3),
              ('K0', 'liq', 4),
              ('K25', 'lend', 4),
              ('K24', 'liq', 3),
              ('K0', 'small', 4),
              ('K1', 'ar', 6),
              ('K16', 'cross', 4),
              ('K1', 'std', 3),
              ('K2', 'std', 3),
              ('K13', 'lend', 4),
              ('K4', 'small', 4),
              ('K7', 'small', 3),
              ('K12', 'lend', 4)],
    'conf_quick': [('K2', 3)],
    'conf_thorough': [('K2', 3), ('K4', 3)],
}
SPEC['thorough'] = X.thorough_spec(SPEC['quick'], cross=True, focus=[('K13', 'lend'), ('K12', 'lend')])
BOUNDS = {t: dict(spec=SPEC[t]) for t in ("quick", "thorough")}
EXPLANATION = ("explicit-state BFS over operation histories with state de-duplication; every transition executes the "
               "real exchange; traces_validated_against_impl = histories executed through BOTH drivers (sync and "
               "public API under a real dispatcher) with identical complete observable state")


def scenarios(tier, seed):
    return X.plan(PROPERTY, tier, SPEC) + [("overdraft", bp, qp) for bp, qp in ((8, 2), (0, 2), (2, 8), (8, 8))]


# ---- requests that need the whole (large) balance plus a few precision units: never accepted, never a negative balance
def _overdraft(sc, res):
    import basana as bs
    from basana.backtesting import exchange as ex, fees, liquidity, errors
    from worlds import exch as _exch
    from worlds.exch import PAIRS, T, call, SIDE
    _exch.set_step({})
    _, bp, qp = sc
    P = PAIRS[0]
    ub, uq = D(1).scaleb(-bp), D(1).scaleb(-qp)
    for base_bal, quote_bal in ((D(100), D(20000000)), (D(10 ** 9) * ub, D(10 ** 9) * uq), (D(123456789), D("98765432.10")),
                                (D(1), D(100))):
        base_bal, quote_bal = base_bal.quantize(ub), quote_bal.quantize(uq)
        for fee in (None, (1, 0)):
            for k in (1, 5):
                for kind, side in (("lim", "S"), ("mkt", "S"), ("stp", "S"), ("lim", "B"), ("sl", "B")):
                    d = bs.backtesting_dispatcher()
                    e = ex.Exchange(d, {"BTC": base_bal, "USD": quote_bal}, liquidity_strategy_factory=liquidity.InfiniteLiquidity,
                                    fee_strategy=fees.NoFee() if fee is None else fees.Percentage(D(fee[0]), D(fee[1])))
                    e.add_bar_source(bs.FifoQueueEventSource())
                    e.set_pair_info(P, bs.PairInfo(bp, qp))
                    e.set_symbol_precision("BTC", bp)
                    e.set_symbol_precision("USD", qp)
                    d._set_now(T(1))
                    one = D(1)
                    call(e._on_bar_event(bs.BarEvent(T(1), bs.Bar(T(0), P, one, one, one, one, D(10)))))
                    try:
                        if side == "S":
                            amt = base_bal + k * ub  # k units more than the account owns
                            if kind == "lim":
                                call(e.create_limit_order(SIDE[side], P, amt, one))
                            elif kind == "mkt":
                                call(e.create_market_order(SIDE[side], P, amt))
                            else:
                                call(e.create_stop_order(SIDE[side], P, amt, one))
                        else:
                            # at price 1 the cost of n base units is n quote units: spend the whole quote balance + k units
                            if bp < qp:
                                continue
                            amt = (quote_bal + k * uq).quantize(ub)
                            if amt * one <= quote_bal:
                                continue
                            if kind == "lim":
                                call(e.create_limit_order(SIDE[side], P, amt, one))
                            else:
                                call(e.create_stop_limit_order(SIDE[side], P, amt, one, one))
                        accepted = True
                    except errors.Error:
                        accepted = False
                    bal = call(e.get_balances())
                    res.executions += 1
                    res.transitions += 1
                    res.validated += 1
                    key = h64(("overdraft", bp, qp, str(base_bal), str(quote_bal), fee, k, kind, side))
                    res.states.add(key)
                    res.nontrivial.add(key)
                    res.outcomes[("overdraft", accepted)] += 1
                    neg = {s_: str(b.available) for s_, b in bal.items() if b.available < 0 or b.hold < 0 or b.borrowed < 0}
                    case = dict(kind="overdraft", bp=bp, qp=qp, balances=[str(base_bal), str(quote_bal)], fee=fee, excess_units=k,
                                order=[kind, side])
                    if accepted or neg:
                        res.violation(f"{PROPERTY}:overdraft-accepted", f"request needing {k} precision unit(s) more than the "
                                      f"account owns was accepted; negative balances {neg}; {case}", case, size=k)
    res.samples.append(dict(kind="overdraft", bp=bp, qp=qp))
    return res


def run_scenario(sc, tier):
    if sc[0] == "overdraft":
        from mc.framework import Result
        return _overdraft(sc, Result())
    return X.run_scenario(PROPERTY, sc, tier)


def replay(rep):
    if rep.get("kind") == "overdraft":
        from mc.framework import Result
        res = _overdraft(("overdraft", rep["bp"], rep["qp"]), Result())
        return [v["message"] for v in res.violations][:5]
    return X.replay(PROPERTY, rep)

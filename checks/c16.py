"""C16 - signed requests verify against the bytes actually sent (DESIGN.md section 4, C16).

The real Binance and Bitstamp clients over a loopback aiohttp server (production host names resolved to 127.0.0.1, virtual
clock). Enumerated, all exhaustively:

 * every signed endpoint of both clients x for each free-form string argument: EVERY printable-ASCII character in first /
   middle / last position, and EVERY ordered pair of URL-special characters x representative decimals;
 * decimal keyword arguments of every exponent form;
 * SEQUENCES of requests on ONE client object: every ordered pair of the request table of an exchange (body / body-less /
   query-string / key-only / public requests), and every triple of one representative per request class - state kept on a
   client between requests (headers, parameter dicts) must not leak into the next request;
 * throttled clients (token bucket exhausted; the clock advances only when the library sleeps, whichever module it sleeps in);
 * server faults: in every sequence of three requests of the class representatives, every single request (and every two
   consecutive requests) is received completely and then the connection is dropped without an answer; whatever the client
   transmits afterwards (its own retry, aiohttp's retry of idempotent requests, the next call) is verified like everything else;
 * process restarts: two child processes with identical inputs;
 * rotated credentials: two client objects of one process with the SAME API key and DIFFERENT secrets, used alternately, every
   ordered pair of three secrets, each request verified under the secret of the client object that sent it.

The server verifies like the exchange does, from the raw request line, headers and body only; Bitstamp nonces are collected
over EVERYTHING received in a scenario - several client objects, retries, dropped requests - and must be pairwise distinct.
"""
import asyncio
import itertools
import json
import os
import random
import string
import subprocess
import sys
import time as _real_time
from decimal import Decimal as D

import aiohttp

from mc.framework import Result, h64
from mc.repo import HarnessError
from worlds import http as H

PROPERTY = "C16"
RULE = ("case = (endpoint, value of its free-form string argument) | (ordered pair / triple of requests on one client object) "
        "| (request sequence, set of arrival indexes whose connection is dropped after the request was read) | (bucket "
        "configuration, endpoint, request number); strings = every printable ASCII character in first, middle and last "
        "position of a 3-character id, plus every ordered pair of URL-special characters; each case is a run of real requests "
        "received by a loopback server and verified from the transmitted bytes. Distinct = distinct case descriptors; "
        "non-trivial = the string contains a character that some encoder escapes / the two requests of a pair belong to "
        "different request classes / a request was dropped / the client had to wait.")
ASSUMPTIONS = [
    "loopback HTTP (no TLS); the Host header and the signed host are the production names through a custom resolver",
    "one virtual clock (mc.vtime.VirtualTime: time, time_ns, monotonic, perf_counter) installed as the `time` attribute of "
    "every loaded basana module; 'current' = within 1 ms of the clock reading at the moment the request arrives (the clock "
    "moves only when the library sleeps: asyncio.sleep is virtual for callers inside basana modules)",
    "Bitstamp nonces: all nonces received in a scenario (several client objects, retries, dropped requests) and across two "
    "process starts pairwise distinct, 36 lower-case characters",
    "the two encoders act per character, so single characters and pairs exhaust their behaviour classes",
    "state a client keeps between requests depends on the previous request only through its class (method, body or not, query "
    "or not, signed / key-only / public): all ordered pairs of the request table and all triples of class representatives",
    "configurations: one API key, secrets from a set of three (every ordered pair old -> new), both exchanges; every request is "
    "verified under the secret its own client object was constructed with",
    "server fault = the request is read completely and the connection closed without a response (ServerDisconnectedError); "
    "refused connections, timeouts and resets while the request is being written transmit nothing that could be verified",
]
BOUNDS = {"quick": dict(pairs=True, sequence=2, class_sequence=3, drops=2), "thorough": dict(pairs=True, sequence=2, class_sequence=3, drops=2)}
EXPLANATION = ("bounded exhaustive input / request-sequence / fault-placement enumeration through the real clients and a real "
               "HTTP stack on loopback; every case is an implementation run")
PRINTABLE = [c for c in string.printable[:95]]
SPECIAL = " :/?#[]@!$&'()*+,;=%~"
DECS = (D("1"), D("0.00000085"), D("1E+3"), D("1234.5678"))
BUCKETS = ((1, 2.5, 1, 3), (2, 1, 0, 3), (1, 7, 1, 2))


def strings(tier):
    out = []
    for c in PRINTABLE:
        out += [c + "ab", "a" + c + "b", "ab" + c]
    if BOUNDS[tier]["pairs"]:
        for c1 in SPECIAL:
            for c2 in SPECIAL:
                out.append("a" + c1 + c2 + "b")
    else:
        for c1 in ":/+%& ":
            for c2 in SPECIAL:
                out.append("a" + c1 + c2 + "b")
    return list(dict.fromkeys(out))


def endpoints(b, s):
    """name -> (exchange, callable(string) -> coroutine, signed?)"""
    sp, cm, im = b.spot_account, b.cross_margin_account, b.isolated_margin_account
    E = {}
    for name, acc in (("spot", sp), ("cross", cm), ("iso", im)):
        E[f"binance.{name}.create_order.client_id"] = ("b", lambda x, acc=acc: acc.create_order(
            "BTCUSDT", "BUY", "LIMIT", time_in_force="GTC", quantity=D("1"), price=D("0.00000085"), new_client_order_id=x), True)
        E[f"binance.{name}.create_order.kwarg"] = ("b", lambda x, acc=acc: acc.create_order(
            "BTCUSDT", "SELL", "MARKET", quote_order_qty=D("1E+3"), newOrderRespType=x), True)
        E[f"binance.{name}.query_order"] = ("b", lambda x, acc=acc: acc.query_order("BTCUSDT", orig_client_order_id=x), True)
        E[f"binance.{name}.cancel_order"] = ("b", lambda x, acc=acc: acc.cancel_order("BTCUSDT", orig_client_order_id=x), True)
        E[f"binance.{name}.create_oco"] = ("b", lambda x, acc=acc: acc.create_oco(
            "BTCUSDT", "SELL", D("1"), D("1234.5678"), D("1E+3"), stop_limit_price=D("0.00000085"),
            stop_limit_time_in_force="GTC", list_client_order_id=x, limit_client_order_id=x + "L", stop_client_order_id=x), True)
        E[f"binance.{name}.cancel_oco"] = ("b", lambda x, acc=acc: acc.cancel_oco_order("BTCUSDT", client_order_list_id=x), True)
        E[f"binance.{name}.query_oco"] = ("b", lambda x, acc=acc: acc.query_oco_order(client_order_list_id=x), True)
        E[f"binance.{name}.open_orders.symbol"] = ("b", lambda x, acc=acc: acc.get_open_orders(x), True)
        E[f"binance.{name}.trades.symbol"] = ("b", lambda x, acc=acc: acc.get_trades(x, order_id=7), True)
    E["binance.spot.keep_alive_listen_key"] = ("b", lambda x: sp.keep_alive_listen_key(x), False)
    E["binance.cross.keep_alive_listen_key"] = ("b", lambda x: cm.keep_alive_listen_key(x), False)
    E["binance.iso.keep_alive_listen_key"] = ("b", lambda x: im.keep_alive_listen_key("BTCUSDT", x), False)
    E["binance.cross.transfer.asset"] = ("b", lambda x: cm.transfer_from_spot_account(x, D("0.00000085")), True)
    E["binance.iso.transfer.asset"] = ("b", lambda x: im.transfer_to_spot_account(x, "BTCUSDT", D("1E+3")), True)
    E["bitstamp.limit.client_id"] = ("s", lambda x: s.create_limit_order("buy", "btcusd", D("1"), D("0.00000085"), client_order_id=x), True)
    E["bitstamp.market.client_id"] = ("s", lambda x: s.create_market_order("sell", "btcusd", D("1E+3"), client_order_id=x), True)
    E["bitstamp.instant.client_id"] = ("s", lambda x: s.create_instant_order("sell", "btcusd", D("1"), amount_in_counter=True, client_order_id=x), True)
    E["bitstamp.limit.kwarg"] = ("s", lambda x: s.create_limit_order("sell", "btcusd", D("1"), D("2"), limit_price=x), True)
    E["bitstamp.order_status.client_id"] = ("s", lambda x: s.get_order_status(client_order_id=x), True)
    E["bitstamp.order_status.id"] = ("s", lambda x: s.get_order_status(id=x, omit_transactions=True), True)
    E["bitstamp.cancel_order.id"] = ("s", lambda x: s.cancel_order(x), True)
    return E


def fixed_endpoints(b, s):
    """Endpoints without a free-form argument: called once each."""
    sp, cm, im = b.spot_account, b.cross_margin_account, b.isolated_margin_account
    return {
        "binance.spot.account": ("b", lambda: sp.get_account_information(), True),
        "binance.cross.account": ("b", lambda: cm.get_account_information(), True),
        "binance.iso.account": ("b", lambda: im.get_account_information(), True),
        "binance.spot.open_orders.all": ("b", lambda: sp.get_open_orders(), True),
        "binance.spot.query_order.id": ("b", lambda: sp.query_order("BTCUSDT", order_id=12345678901), True),
        "binance.cross.cancel_order.id": ("b", lambda: cm.cancel_order("BTCUSDT", order_id=1), True),
        "binance.cross.transfer_out": ("b", lambda: cm.transfer_to_spot_account("BTC", D("1234.5678")), True),
        "binance.iso.transfer_in": ("b", lambda: im.transfer_from_spot_account("BTC", "BTCUSDT", D("0.00000085")), True),
        "binance.spot.create_listen_key": ("b", lambda: sp.create_listen_key(), False),
        "binance.cross.create_listen_key": ("b", lambda: cm.create_listen_key(), False),
        "binance.iso.create_listen_key": ("b", lambda: im.create_listen_key("BTCUSDT"), False),
        "bitstamp.websocket_token": ("s", lambda: s.get_websocket_auth_token(), True),
        "bitstamp.balances": ("s", lambda: s.get_account_balances(), True),
        "bitstamp.balance": ("s", lambda: s.get_account_balance("btc"), True),
        "bitstamp.open_orders.all": ("s", lambda: s.get_open_orders(), True),
        "bitstamp.open_orders.pair": ("s", lambda: s.get_open_orders("btcusd"), True),
        "bitstamp.order_status.int": ("s", lambda: s.get_order_status(id=1234), True),
        "bitstamp.cancel_order.int": ("s", lambda: s.cancel_order(1234), True),
    }


# ---- sequences of requests on one client -----------------------------------------------------------------------------
# name -> (callable(b, s) -> coroutine, signed: True / False (key only) / None (public, nothing to verify), request class)
# The request class says what the library has to build for the request: method, where the parameters travel, which
# credentials accompany it.
def _seq_table(ex):
    T = {}
    if ex == "b":
        for nm, get in (("spot", lambda b: b.spot_account), ("cross", lambda b: b.cross_margin_account),
                        ("iso", lambda b: b.isolated_margin_account)):
            T[f"binance.{nm}.account"] = (lambda b, s, get=get: get(b).get_account_information(), True, "GET-signed-bare")
            T[f"binance.{nm}.create_order"] = (lambda b, s, get=get: get(b).create_order(
                "BTCUSDT", "BUY", "LIMIT", time_in_force="GTC", quantity=D("1"), price=D("0.00000085"),
                new_client_order_id="a:/b"), True, "POST-signed-body")
            T[f"binance.{nm}.query_order"] = (lambda b, s, get=get: get(b).query_order("BTCUSDT", orig_client_order_id="a:/b"),
                                              True, "GET-signed-query")
            T[f"binance.{nm}.cancel_order"] = (lambda b, s, get=get: get(b).cancel_order("BTCUSDT", order_id=77), True,
                                               "DELETE-signed-query")
            T[f"binance.{nm}.cancel_oco"] = (lambda b, s, get=get: get(b).cancel_oco_order("BTCUSDT", order_list_id=5), True,
                                             "DELETE-signed-body")
        T["binance.spot.open_orders"] = (lambda b, s: b.spot_account.get_open_orders("ETHBTC"), True, "GET-signed-query")
        T["binance.spot.trades"] = (lambda b, s: b.spot_account.get_trades("BTCUSDT", order_id=7), True, "GET-signed-query")
        T["binance.spot.create_oco"] = (lambda b, s: b.spot_account.create_oco(
            "BTCUSDT", "SELL", D("1"), D("1234.5678"), D("1E+3"), list_client_order_id="x y"), True, "POST-signed-body")
        T["binance.cross.transfer"] = (lambda b, s: b.cross_margin_account.transfer_from_spot_account("BTC", D("1E+3")), True,
                                       "POST-signed-body")
        T["binance.spot.create_listen_key"] = (lambda b, s: b.spot_account.create_listen_key(), False, "POST-key-bare")
        T["binance.iso.create_listen_key"] = (lambda b, s: b.isolated_margin_account.create_listen_key("BTCUSDT"), False,
                                              "POST-key-body")
        T["binance.spot.keep_alive_listen_key"] = (lambda b, s: b.spot_account.keep_alive_listen_key("k1"), False, "PUT-key-body")
        T["binance.public.exchange_info"] = (lambda b, s: b.get_exchange_info("BTCUSDT"), None, "GET-public-query")
        T["binance.public.order_book"] = (lambda b, s: b.get_order_book("BTCUSDT", limit=5), None, "GET-public-query")
    else:
        T["bitstamp.balances"] = (lambda b, s: s.get_account_balances(), True, "POST-auth-bare")
        T["bitstamp.balance"] = (lambda b, s: s.get_account_balance("btc"), True, "POST-auth-bare")
        T["bitstamp.open_orders.all"] = (lambda b, s: s.get_open_orders(), True, "POST-auth-bare")
        T["bitstamp.open_orders.pair"] = (lambda b, s: s.get_open_orders("btcusd"), True, "POST-auth-bare")
        T["bitstamp.websocket_token"] = (lambda b, s: s.get_websocket_auth_token(), True, "POST-auth-bare")
        T["bitstamp.order_status.id"] = (lambda b, s: s.get_order_status(id=1234), True, "POST-auth-body")
        T["bitstamp.order_status.client_id"] = (lambda b, s: s.get_order_status(client_order_id="a:/ b"), True, "POST-auth-body")
        T["bitstamp.cancel_order"] = (lambda b, s: s.cancel_order(1234), True, "POST-auth-body")
        T["bitstamp.limit"] = (lambda b, s: s.create_limit_order("buy", "btcusd", D("1"), D("0.00000085"), client_order_id="a&b"),
                               True, "POST-auth-body")
        T["bitstamp.market"] = (lambda b, s: s.create_market_order("sell", "btcusd", D("1E+3")), True, "POST-auth-body")
        T["bitstamp.instant"] = (lambda b, s: s.create_instant_order("sell", "btcusd", D("1"), amount_in_counter=True), True,
                                 "POST-auth-body")
        T["bitstamp.public.ticker"] = (lambda b, s: s.get_ticker("btcusd"), None, "GET-public-bare")
        T["bitstamp.public.order_book"] = (lambda b, s: s.get_order_book("btcusd", group=1), None, "GET-public-query")
    return T


def _class_reps(ex):
    reps = {}
    for n, (_, _, cls) in _seq_table(ex).items():
        reps.setdefault(cls, n)
    return sorted(reps.values())


def endpoint_names():
    return sorted(endpoints(_Dummy(), _Dummy()).keys()) + ["<fixed>"]


class _Dummy:
    def __getattr__(self, name):
        return _Dummy()

    def __call__(self, *a, **k):
        return None


def scenarios(tier, seed):
    out = [(name,) for name in endpoint_names()] + [("<throttled>",), ("<decimal-kwargs>",)]
    for ex in ("b", "s"):
        out += [("<pairs>", ex, first) for first in sorted(_seq_table(ex))]
        out += [("<triples>", ex, first) for first in _class_reps(ex)]
        out += [("<drop>", ex, first) for first in _class_reps(ex) if _seq_table(ex)[first][1] is not None]
    out.append(("<restart>",))
    out += [("<rotated>", ex) for ex in ("b", "s")]
    return out


def _verify(ex, req, signed, now=None, secret=None):
    """secret: the secret of the account of the client object that sent the request (default H.SECRET)."""
    if signed is None:
        return None
    if ex == "b":
        err = H.verify_binance(req, signed, now=now, secret=secret)
        if err is None and req["host"] != "api.binance.com":
            err = f"Host header {req['host']}"
        return err
    return H.verify_bitstamp(req, now=now, secret=secret)


def _nonce_violations(res, nonces, rep, what):
    """nonces: list of (nonce, description of the request that carried it), everything a scenario's server received."""
    seen = {}
    dups = []
    for nonce, desc in nonces:
        if nonce in seen:
            dups.append((nonce, seen[nonce], desc))
        else:
            seen[nonce] = desc
    if dups:
        nonce, first, second = dups[0]
        res.violation(f"{PROPERTY}:bitstamp:nonce-repeated", f"{len(dups)} repeated nonces among {len(nonces)} authenticated "
                      f"requests received ({what}); e.g. {nonce} carried by [{first}] and again by [{second}]", rep, size=1)


def _clients(session, tb=None, secret=None):
    """A fresh Binance and a fresh Bitstamp client object on the given session (tb: factory of a token bucket per client;
    secret: the account's secret, default H.SECRET)."""
    from basana.external.binance import client as bcli
    from basana.external.bitstamp import client as scli
    b = bcli.APIClient(H.KEY, secret or H.SECRET, session=session, config_overrides=H.BINANCE_URL, tb=tb() if tb else None)
    s = scli.APIClient(H.KEY, secret or H.SECRET, session=session, config_overrides=H.BITSTAMP_URL, tb=tb() if tb else None)
    return b, s


def _bucket_model(tpp, per, initial):
    """Boring reference of a token bucket on a clock that only moves when the client waits: yields the wait each consecutive
    request needs (used ONLY to notice that the library waited in real time, i.e. that a sleep path is not virtualised)."""
    tokens = float(initial)
    while True:
        tokens -= 1
        if tokens >= 0:
            yield 0.0
        else:
            wait = -tokens / tpp * per
            yield wait
            tokens = min(tokens + wait / per * tpp, tpp)


async def _run_throttled(res):
    """Clients with a token bucket whose bucket is exhausted: the signed timestamp must be current when the request is
    SENT, i.e. taken after the throttling wait. The clock only advances when the library sleeps."""
    from basana.core import token_bucket
    seam = H.TimeSeam(virtual_sleep=True)
    clk = seam.clock
    srv = H.Server()
    srv.clock = lambda: clk.now
    await srv.start()
    nonces = []
    rep = dict(endpoint="<throttled>", value=None)
    try:
        conn = aiohttp.TCPConnector(resolver=H.resolver(srv.port))
        async with aiohttp.ClientSession(connector=conn) as session:
            for tpp, per, initial, nreq in BUCKETS:
                calls = [("binance.spot.account", "b", lambda b, s: b.spot_account.get_account_information()),
                         ("binance.cross.query_order", "b", lambda b, s: b.cross_margin_account.query_order("BTCUSDT", order_id=1)),
                         ("binance.spot.create_order", "b", lambda b, s: b.spot_account.create_order("BTCUSDT", "BUY", "MARKET", quantity=D("1"))),
                         ("bitstamp.balances", "s", lambda b, s: s.get_account_balances()),
                         ("bitstamp.limit", "s", lambda b, s: s.create_limit_order("buy", "btcusd", D("1"), D("2")))]
                for n, ex, fn in calls:
                    # a fresh pair of clients (fresh buckets) per endpoint: every endpoint meets the empty bucket
                    b, s = _clients(session, tb=lambda: token_bucket.TokenBucketLimiter(tpp, per, initial))
                    model = _bucket_model(tpp, per, initial)
                    for k in range(nreq):
                        srv.reqs.clear()
                        before, slept0, real0 = clk.now, seam.slept, _real_time.monotonic()
                        need = next(model)
                        err = None
                        try:
                            await fn(b, s)
                        except Exception as e:  # noqa
                            err = f"client raised {type(e).__name__}: {e}"
                        waited = clk.now - before
                        real = _real_time.monotonic() - real0
                        if need > 0 and seam.slept == slept0 and real >= 0.8 * need:
                            raise HarnessError(
                                f"{n} request #{k} (bucket {tpp}/{per}s, initial {initial}) took {real:.2f}s of REAL time while the "
                                f"virtual clock stood still: the library waits through a sleep path that the harness does not "
                                f"virtualise; no verdict about 'timestamps are current' is possible")
                        res.executions += 1
                        res.transitions += 1
                        res.validated += 1
                        key = h64(("throttled", tpp, per, initial, n, k))
                        res.states.add(key)
                        if waited > 0:
                            res.nontrivial.add(key)
                        if err is None:
                            if len(srv.reqs) != 1:
                                err = f"{len(srv.reqs)} requests received"
                            else:
                                req = srv.reqs[-1]
                                err = _verify(ex, req, True, now=req["arrived"])
                        for req in srv.reqs:
                            if ex == "s":
                                nonces.append((req["headers"].get("X-Auth-Nonce"), f"{n} #{k} bucket {tpp}/{per}"))
                        res.outcomes["verified" if err is None else "rejected"] += 1
                        if err is not None:
                            res.violation(f"{PROPERTY}:{'binance' if ex == 'b' else 'bitstamp'}:stale-timestamp-when-throttled",
                                          f"{err}; endpoint={n} request #{k} after a throttling wait of {waited}s "
                                          f"(bucket {tpp}/{per}s, initial {initial})", rep, size=k)
    finally:
        await srv.stop()
        seam.restore()
    _nonce_violations(res, nonces, rep, "throttled clients, one client object per endpoint and bucket")
    res.samples.append(dict(endpoint="<throttled>", buckets=[list(x[:3]) for x in BUCKETS]))


async def _run_decimal_kwargs(res):
    """Extra keyword arguments that are decimals (any exponent form): what is signed must be what is sent."""
    H.patch_time()
    srv = H.Server()
    await srv.start()
    try:
        conn = aiohttp.TCPConnector(resolver=H.resolver(srv.port))
        async with aiohttp.ClientSession(connector=conn) as session:
            b, s = _clients(session)
            decs = [D(c).scaleb(e) for c in (1, 85, 1230) for e in range(-12, 13)] + [D("30000").normalize(), D("0E-8")]
            calls = {
                "binance.spot.create_order.kwarg": ("b", lambda x: b.spot_account.create_order("BTCUSDT", "BUY", "LIMIT", quantity=D("1"), price=D("2"), icebergQty=x)),
                "binance.cross.create_oco.kwarg": ("b", lambda x: b.cross_margin_account.create_oco("BTCUSDT", "SELL", D("1"), D("3"), D("2"), trailingDelta=x)),
                "bitstamp.limit.kwarg": ("s", lambda x: s.create_limit_order("sell", "btcusd", D("1"), D("2"), limit_price=x)),
                "bitstamp.market.kwarg": ("s", lambda x: s.create_market_order("buy", "btcusd", D("1"), some_option=x)),
                "bitstamp.instant.kwarg": ("s", lambda x: s.create_instant_order("buy", "btcusd", D("1"), some_option=x)),
            }
            for n, (ex, fn) in calls.items():
                for x in decs:
                    srv.reqs.clear()
                    err = None
                    try:
                        await fn(x)
                    except Exception as e:  # noqa
                        err = f"client raised {type(e).__name__}: {e}"
                    res.executions += 1
                    res.transitions += 1
                    res.validated += 1
                    key = h64(("deckw", n, str(x)))
                    res.states.add(key)
                    if "E" in str(x):
                        res.nontrivial.add(key)
                    if err is None:
                        req = srv.reqs[-1]
                        err = _verify(ex, req, True)
                    res.outcomes["verified" if err is None else "rejected"] += 1
                    if err is not None:
                        res.violation(f"{PROPERTY}:{'binance' if ex == 'b' else 'bitstamp'}:{err.split(' over ')[0][:40]}:decimal-kwarg",
                                      f"{err}; endpoint={n} keyword argument value {x!r}", dict(endpoint="<decimal-kwargs>", value=None),
                                      size=len(str(x)))
    finally:
        await srv.stop()
    res.samples.append(dict(endpoint="<decimal-kwargs>", example="limit_price=Decimal('3E+4')"))


async def _run_sequences(sc, res):
    """Every ordered pair (first, X) of the exchange's request table / every triple (first, X, Y) of its class
    representatives, each on ONE fresh client object; all requests are verified, all nonces of the scenario collected."""
    kind, ex, first = sc
    H.patch_time()
    table = _seq_table(ex)
    if kind == "<pairs>":
        seqs = [(first, second) for second in sorted(table)]
    else:
        reps = _class_reps(ex)
        seqs = [(first, x, y) for x in reps for y in reps]
    srv = H.Server()
    await srv.start()
    nonces = []
    rep = dict(endpoint=kind, sc=list(sc))
    try:
        conn = aiohttp.TCPConnector(resolver=H.resolver(srv.port))
        async with aiohttp.ClientSession(connector=conn) as session:
            for seq in seqs:
                b, s = _clients(session)   # ONE client object for the whole sequence, a new one for the next sequence
                classes = [table[n][2] for n in seq]
                bad = None
                for pos, n in enumerate(seq):
                    fn, signed, cls = table[n]
                    srv.reqs.clear()
                    err = None
                    random.seed(20240101)
                    try:
                        await fn(b, s)
                    except Exception as e:  # noqa
                        err = f"client raised {type(e).__name__}: {e}"
                    res.transitions += 1
                    if err is None:
                        if len(srv.reqs) != 1:
                            err = f"{len(srv.reqs)} requests received"
                        else:
                            err = _verify(ex, srv.reqs[-1], signed)
                    for req in srv.reqs:
                        if ex == "s" and signed is not None:
                            nonces.append((req["headers"].get("X-Auth-Nonce"), f"{n} as request #{pos} of {'>'.join(seq)}"))
                    if err is not None and bad is None:
                        bad = (pos, n, cls, err)
                res.executions += 1
                res.validated += 1
                key = h64((kind, seq))
                res.states.add(key)
                if len(set(classes)) > 1:
                    res.nontrivial.add(key)
                res.outcomes["verified" if bad is None else "rejected"] += 1
                if bad is not None:
                    pos, n, cls, err = bad
                    prev = classes[pos - 1] if pos else "none"
                    res.violation(f"{PROPERTY}:{'binance' if ex == 'b' else 'bitstamp'}:sequence:{err.split(' over ')[0][:40]}:{prev}>{cls}",
                                  f"{err}; request #{pos} ({n}, class {cls}) of the sequence {' > '.join(seq)} on one client object "
                                  f"(classes {' > '.join(classes)})", rep, size=pos)
                if not res.samples and bad is None:
                    res.samples.append(dict(sequence=list(seq), classes=classes))
    finally:
        await srv.stop()
    _nonce_violations(res, nonces, rep, f"{len(seqs)} client objects, one per request sequence")


def _drop_sets(tier):
    """Arrival indexes (order of arrival at the server within one run) whose connection is dropped after the request was read:
    every single index and every two consecutive ones (the second one hits whatever is transmitted next, e.g. a retry)."""
    n = 5
    out = [(i,) for i in range(n)]
    if BOUNDS[tier]["drops"] >= 2:
        out += [(i, i + 1) for i in range(n - 1)]
    return out


async def _run_drop(sc, tier, res):
    """Server faults: sequences of three requests (first fixed by the scenario, the other two over the class representatives)
    on one client object; for every drop set the requests arriving at those positions are read and then the connection is
    closed without an answer. EVERYTHING the server received (including the dropped requests and whatever was transmitted
    again) must verify at its arrival time, and all Bitstamp nonces must be pairwise distinct."""
    kind, ex, first = sc
    seam = H.TimeSeam(virtual_sleep=True)   # a retry that backs off moves the clock: its timestamp must then be fresh
    clk = seam.clock
    table = _seq_table(ex)
    reps = [n for n in _class_reps(ex) if table[n][1] is not None]
    srv = H.Server()
    srv.clock = lambda: clk.now
    await srv.start()
    nonces = []
    rep = dict(endpoint=kind, sc=list(sc))
    try:
        for seq in [(first, x, y) for x in reps for y in reps]:
            for drops in _drop_sets(tier):
                srv.reqs.clear()
                srv.received = 0
                srv.behaviour = lambda i, req, drops=drops: "drop" if i in drops else "ok"
                # a fresh connection pool per run: a dropped connection of an earlier run must not decide this one
                conn = aiohttp.TCPConnector(resolver=H.resolver(srv.port))
                bad = None
                run_nonces = []
                async with aiohttp.ClientSession(connector=conn) as session:
                    b, s = _clients(session)
                    for pos, n in enumerate(seq):
                        fn, signed, cls = table[n]
                        i0 = len(srv.reqs)
                        err = None
                        random.seed(20240101)
                        try:
                            await fn(b, s)
                        except Exception as e:  # noqa
                            err = f"client raised {type(e).__name__}: {e}"
                        res.transitions += 1
                        mine = srv.reqs[i0:]
                        if err is not None and any(r["dropped"] for r in mine):
                            err = None   # the caller gets to know that the connection was dropped: fine
                        if err is None and not mine:
                            err = "nothing was transmitted"
                        for r in mine:
                            e2 = _verify(ex, r, signed, now=r["arrived"])
                            if e2 is not None and err is None:
                                err = e2 + (" (request re-sent after a dropped connection)" if r is not mine[0] else "")
                            if ex == "s":
                                run_nonces.append((r["headers"].get("X-Auth-Nonce"),
                                                   f"arrival #{r['index']}{' (dropped)' if r['dropped'] else ''} of {' > '.join(seq)} "
                                                   f"with drops {drops}"))
                        if err is not None and bad is None:
                            bad = (pos, n, err)
                hit = [r["index"] for r in srv.reqs if r["dropped"]]
                res.executions += 1
                res.validated += 1
                key = h64((kind, seq, drops))
                res.states.add(key)
                if hit:
                    res.nontrivial.add(key)
                res.outcomes[("verified" if bad is None else "rejected") + f":{len(hit)}-dropped:{len(srv.reqs)}-received"] += 1
                if bad is not None:
                    pos, n, err = bad
                    res.violation(f"{PROPERTY}:{'binance' if ex == 'b' else 'bitstamp'}:after-drop:{err.split(' over ')[0][:40]}",
                                  f"{err}; call #{pos} ({n}) of {' > '.join(seq)}; connections dropped after receiving arrivals "
                                  f"{hit}; {len(srv.reqs)} requests received in all", rep, size=len(hit))
                # nonces are compared within the run (a replay of the dropped request) AND across the whole scenario
                nonces += run_nonces
                if len({x[0] for x in run_nonces}) != len(run_nonces):
                    _nonce_violations(res, run_nonces, rep, f"calls {' > '.join(seq)}, connections dropped after receiving arrivals {hit}")
                if not res.samples and hit and bad is None:
                    res.samples.append(dict(sequence=list(seq), dropped_arrivals=hit, received=len(srv.reqs)))
    finally:
        srv.behaviour = None
        await srv.stop()
        seam.restore()
    _nonce_violations(res, nonces, rep, "all runs of the scenario, one client object per run")


ROTATED_SECRETS = (H.SECRET, "the-rotated-secret/2", "zz")


async def _run_rotated(sc, res):
    """Two client objects of ONE process share the API key but have DIFFERENT secrets (credentials rotated or corrected while
    the program runs). Every request is verified under the secret of the client object that sent it. Enumerated: every ordered
    pair of distinct secrets (old, new) x every signed request of the table as the old client's request x every signed class
    representative as the new client's request; then the old client is used once more (interleaving)."""
    kind, ex = sc
    H.patch_time()
    table = _seq_table(ex)
    signed_all = [n for n in sorted(table) if table[n][1] is True]
    reps = [n for n in _class_reps(ex) if table[n][1] is True]
    srv = H.Server()
    await srv.start()
    nonces = []
    rep = dict(endpoint=kind, sc=list(sc))
    try:
        conn = aiohttp.TCPConnector(resolver=H.resolver(srv.port))
        async with aiohttp.ClientSession(connector=conn) as session:
            for (old, new), n1, n2 in itertools.product(itertools.permutations(ROTATED_SECRETS, 2), signed_all, reps):
                c_old, c_new = _clients(session, secret=old), _clients(session, secret=new)
                bad = None
                steps = [("old", c_old, old, n1), ("new", c_new, new, n2), ("old", c_old, old, n2), ("new", c_new, new, n1)]
                for pos, (who, (b, s), secret, n) in enumerate(steps):
                    fn, signed, cls = table[n]
                    srv.reqs.clear()
                    err = None
                    try:
                        await fn(b, s)
                    except Exception as e:  # noqa
                        err = f"client raised {type(e).__name__}: {e}"
                    res.transitions += 1
                    if err is None:
                        if len(srv.reqs) != 1:
                            err = f"{len(srv.reqs)} requests received"
                        else:
                            err = _verify(ex, srv.reqs[-1], signed, secret=secret)
                    for req in srv.reqs:
                        if ex == "s":
                            nonces.append((req["headers"].get("X-Auth-Nonce"), f"{n} by the {who} client, secrets {old!r} -> {new!r}"))
                    if err is not None and bad is None:
                        bad = (pos, who, n, secret, err)
                res.executions += 1
                res.validated += 1
                key = h64((kind, ex, old, new, n1, n2))
                res.states.add(key)
                res.nontrivial.add(key)
                res.outcomes["verified" if bad is None else "rejected"] += 1
                if bad is not None:
                    pos, who, n, secret, err = bad
                    res.violation(f"{PROPERTY}:{'binance' if ex == 'b' else 'bitstamp'}:other-clients-secret:{err.split(' over ')[0][:40]}",
                                  f"{err} under the secret {secret!r} of the client object that sent it; request #{pos} ({n}) by the {who} "
                                  f"client; two client objects with the same API key, secrets {old!r} (created first) and {new!r}", rep, size=pos)
                if not res.samples and bad is None:
                    res.samples.append(dict(endpoint=kind, secrets=[old, new], requests=[n1, n2, n2, n1]))
    finally:
        await srv.stop()
    _nonce_violations(res, nonces, rep, "client objects with the same API key and different secrets")


_RESTART_CHILD = r"""
import asyncio, json, sys
sys.path.insert(0, %r)
from mc import repo
repo.bind()
import aiohttp
from decimal import Decimal as D
from worlds import http as H
from basana.external.bitstamp import client as scli

async def main():
    H.patch_time()
    srv = H.Server()
    await srv.start()
    try:
        conn = aiohttp.TCPConnector(resolver=H.resolver(srv.port))
        async with aiohttp.ClientSession(connector=conn) as session:
            for c in range(2):
                s = scli.APIClient(H.KEY, H.SECRET, session=session, config_overrides=H.BITSTAMP_URL)
                await s.get_account_balances()
                await s.create_limit_order("buy", "btcusd", D("1"), D("2"))
                await s.cancel_order(1234)
    finally:
        await srv.stop()
    print(json.dumps([[r["headers"].get("X-Auth-Nonce"), H.verify_bitstamp(r)] for r in srv.reqs]))
asyncio.run(main())
"""


def _run_restart(res):
    """The program is started twice with identical inputs (same hash seed, same frozen clock, same requests): nonces must not
    repeat across the two processes either (Bitstamp remembers them for longer than a restart takes)."""
    verif = os.path.dirname(os.path.dirname(os.path.abspath(__file__)))
    rep = dict(endpoint="<restart>", sc=["<restart>"])
    runs = []
    for k in range(2):
        p = subprocess.run([sys.executable, "-B", "-c", _RESTART_CHILD % verif], capture_output=True, text=True, cwd=verif,
                           env=dict(os.environ, PYTHONHASHSEED="0"), timeout=300)
        if p.returncode != 0:
            raise HarnessError(f"restart child failed: {p.stderr[-2000:]}")
        runs.append(json.loads(p.stdout.strip().splitlines()[-1]))
        res.executions += 1
        res.transitions += len(runs[-1])
        res.validated += 1
    nonces = []
    for k, run in enumerate(runs):
        for i, (nonce, err) in enumerate(run):
            nonces.append((nonce, f"request #{i} of process start #{k}"))
            if err:
                res.violation(f"{PROPERTY}:bitstamp:{err.split(' over ')[0][:40]}:restart", f"{err}; request #{i} of process start #{k}",
                              rep, size=i)
    key = h64(("restart", len(nonces)))
    res.states.add(key)
    res.nontrivial.add(key)
    res.outcomes["restart-compared"] += 1
    _nonce_violations(res, nonces, rep, "two process starts with identical inputs, two client objects each")
    res.samples.append(dict(endpoint="<restart>", requests_per_start=len(runs[0])))


async def _run(name, tier, res):
    H.patch_time()
    srv = H.Server()
    await srv.start()
    nonces = []
    try:
        conn = aiohttp.TCPConnector(resolver=H.resolver(srv.port))
        async with aiohttp.ClientSession(connector=conn) as session:
            # two client objects per exchange, used alternately: "never repeat" ranges over the account, not over one object
            pairs = [_clients(session), _clients(session)]
            if name == "<fixed>":
                tables = [fixed_endpoints(b, s) for b, s in pairs]
                calls = [(n, ex, [t[n][1] for t in tables], signed, None) for n, (ex, fn, signed) in tables[0].items()
                         for _ in range(2)]
            else:
                tables = [endpoints(b, s) for b, s in pairs]
                ex, _, signed = tables[0][name]
                calls = [(name, ex, [(lambda x=x, fn=t[name][1]: fn(x)) for t in tables], signed, x) for x in strings(tier)]
            for i, (n, ex, fns, signed, x) in enumerate(calls):
                srv.reqs.clear()
                err = None
                random.seed(20240101)  # an application that (re)seeds the global RNG must not make nonces repeat
                try:
                    await fns[i % 2]()
                except Exception as e:  # noqa
                    err = f"client raised {type(e).__name__}: {e}"
                res.executions += 1
                res.transitions += 1
                res.validated += 1
                key = h64((n, x, i % 2 if x is None else 0))
                res.states.add(key)
                if x is None or any(c in SPECIAL or not c.isalnum() for c in x):
                    res.nontrivial.add(key)
                if err is None:
                    if len(srv.reqs) != 1:
                        err = f"{len(srv.reqs)} requests received"
                    else:
                        req = srv.reqs[-1]
                        err = _verify(ex, req, signed)
                        if ex == "s":
                            nonces.append((req["headers"].get("X-Auth-Nonce"), f"{n} value={x!r} client object #{i % 2}"))
                res.outcomes["verified" if err is None else "rejected"] += 1
                case = dict(endpoint=n, value=x)
                if not res.samples and x is not None and err is None:
                    res.samples.append(dict(case, raw_path=srv.reqs[-1]["raw_path"], body=srv.reqs[-1]["body"].decode()))
                if err is not None:
                    chars = "" if x is None else "".join(sorted(set(c for c in x if not c.isalnum())))
                    where = "query" if (srv.reqs and "?" in srv.reqs[-1]["raw_path"] and x is not None) else "body-or-none"
                    res.violation(f"{PROPERTY}:{'binance' if ex == 'b' else 'bitstamp'}:{err.split(' over ')[0][:40]}:{where}",
                                  f"{err}; endpoint={n} value={x!r} (special characters {chars!r})", case,
                                  size=len(x or ""))
    finally:
        await srv.stop()
    _nonce_violations(res, nonces, dict(endpoint=name, value=None), "two client objects used alternately")


def run_scenario(sc, tier):
    res = Result()
    if sc[0] == "<throttled>":
        asyncio.run(_run_throttled(res))
    elif sc[0] == "<decimal-kwargs>":
        asyncio.run(_run_decimal_kwargs(res))
    elif sc[0] in ("<pairs>", "<triples>"):
        asyncio.run(_run_sequences(sc, res))
    elif sc[0] == "<drop>":
        asyncio.run(_run_drop(sc, tier, res))
    elif sc[0] == "<restart>":
        _run_restart(res)
    elif sc[0] == "<rotated>":
        asyncio.run(_run_rotated(sc, res))
    else:
        asyncio.run(_run(sc[0], tier, res))
    return res


def replay(rep):
    res = Result()
    name = rep["endpoint"]
    if name in ("<throttled>", "<decimal-kwargs>"):
        asyncio.run(_run_throttled(res) if name == "<throttled>" else _run_decimal_kwargs(res))
        return [v["message"] for v in res.violations][:5]
    if name in ("<pairs>", "<triples>", "<drop>", "<restart>", "<rotated>"):
        res = run_scenario(tuple(rep["sc"]), "quick")
        return [v["message"] for v in res.violations][:5]
    if rep.get("value") is None and name not in fixed_endpoints(_Dummy(), _Dummy()):
        asyncio.run(_run(name, "quick", res))   # a nonce finding of a whole endpoint scenario
        return [v["message"] for v in res.violations][:5]

    async def one():
        H.patch_time()
        srv = H.Server()
        await srv.start()
        try:
            conn = aiohttp.TCPConnector(resolver=H.resolver(srv.port))
            async with aiohttp.ClientSession(connector=conn) as session:
                b, s = _clients(session)
                table = endpoints(b, s)
                if name in table:
                    ex, fn, signed = table[name]
                    await fn(rep["value"])
                else:
                    ex, fn, signed = fixed_endpoints(b, s)[name]
                    await fn()
                req = srv.reqs[-1]
                print("request line:", req["method"], req["raw_path"])
                print("headers:", {k: v for k, v in req["headers"].items() if k.startswith("X-") or k in ("Host", "Content-Type")})
                print("body:", req["body"])
                return _verify(ex, req, signed)
        finally:
            await srv.stop()
    err = asyncio.run(one())
    return [err] if err else []

"""C16 - signed requests verify against the bytes actually sent (DESIGN.md section 4, C16).

The real Binance and Bitstamp clients over a loopback aiohttp server (production host names resolved to 127.0.0.1, time
patched). Every signed endpoint of both clients x for each free-form string argument: EVERY printable-ASCII character in
first / middle / last position, and EVERY ordered pair of URL-special characters x representative decimals. The server
verifies like the exchange does, from the raw request line, headers and body only.
"""
import asyncio
import random
import string
from decimal import Decimal as D

import aiohttp

from mc.framework import Result, h64
from worlds import http as H

PROPERTY = "C16"
RULE = ("case = (endpoint, value of its free-form string argument); strings = every printable ASCII character in first, "
        "middle and last position of a 3-character id, plus every ordered pair of URL-special characters; each case is "
        "one real request received by a loopback server and verified from the transmitted bytes. Distinct = distinct "
        "(endpoint, string); non-trivial = the string contains a character that some encoder escapes.")
ASSUMPTIONS = [
    "loopback HTTP (no TLS); the Host header and the signed host are the production names through a custom resolver",
    "time.time patched to a known value in the two signing modules; 'current' = equal to that value in ms",
    "Bitstamp nonces: all nonces of a run pairwise distinct, 36 lower-case characters",
    "the two encoders act per character, so single characters and pairs exhaust their behaviour classes",
]
BOUNDS = {"quick": dict(pairs=True), "thorough": dict(pairs=True)}
EXPLANATION = ("bounded exhaustive input enumeration through the real clients and a real HTTP stack on loopback; every case is "
               "an implementation run")
PRINTABLE = [c for c in string.printable[:95]]
SPECIAL = " :/?#[]@!$&'()*+,;=%~"
DECS = (D("1"), D("0.00000085"), D("1E+3"), D("1234.5678"))


def strings(tier):
    out = []
    for c in PRINTABLE:
        out += [c + "ab", "a" + c + "b", "ab" + c]
    if BOUNDS[tier]["pairs"]:
        for c1 in SPECIAL:
            for c2 in SPECIAL:
                out.append("a" + c1 + c2 + "b")
    else:
        for c1 in ":/+%& ":
            for c2 in SPECIAL:
                out.append("a" + c1 + c2 + "b")
    return list(dict.fromkeys(out))


def endpoints(b, s):
    """name -> (exchange, callable(string) -> coroutine, signed?)"""
    sp, cm, im = b.spot_account, b.cross_margin_account, b.isolated_margin_account
    E = {}
    for name, acc in (("spot", sp), ("cross", cm), ("iso", im)):
        E[f"binance.{name}.create_order.client_id"] = ("b", lambda x, acc=acc: acc.create_order(
            "BTCUSDT", "BUY", "LIMIT", time_in_force="GTC", quantity=D("1"), price=D("0.00000085"), new_client_order_id=x), True)
        E[f"binance.{name}.create_order.kwarg"] = ("b", lambda x, acc=acc: acc.create_order(
            "BTCUSDT", "SELL", "MARKET", quote_order_qty=D("1E+3"), newOrderRespType=x), True)
        E[f"binance.{name}.query_order"] = ("b", lambda x, acc=acc: acc.query_order("BTCUSDT", orig_client_order_id=x), True)
        E[f"binance.{name}.cancel_order"] = ("b", lambda x, acc=acc: acc.cancel_order("BTCUSDT", orig_client_order_id=x), True)
        E[f"binance.{name}.create_oco"] = ("b", lambda x, acc=acc: acc.create_oco(
            "BTCUSDT", "SELL", D("1"), D("1234.5678"), D("1E+3"), stop_limit_price=D("0.00000085"),
            stop_limit_time_in_force="GTC", list_client_order_id=x, limit_client_order_id=x + "L", stop_client_order_id=x), True)
        E[f"binance.{name}.cancel_oco"] = ("b", lambda x, acc=acc: acc.cancel_oco_order("BTCUSDT", client_order_list_id=x), True)
        if name == "spot":
            E[f"binance.{name}.query_oco"] = ("b", lambda x, acc=acc: acc.query_oco_order(client_order_list_id=x), True)
        else:
            E[f"binance.{name}.query_oco"] = ("b", lambda x, acc=acc: acc.query_oco_order(client_order_list_id=x) if name == "cross"
                                              else acc.query_oco_order(client_order_list_id=x), True)
        E[f"binance.{name}.open_orders.symbol"] = ("b", lambda x, acc=acc: acc.get_open_orders(x), True)
        E[f"binance.{name}.trades.symbol"] = ("b", lambda x, acc=acc: acc.get_trades(x, order_id=7), True)
    E["binance.spot.keep_alive_listen_key"] = ("b", lambda x: sp.keep_alive_listen_key(x), False)
    E["binance.cross.keep_alive_listen_key"] = ("b", lambda x: cm.keep_alive_listen_key(x), False)
    E["binance.iso.keep_alive_listen_key"] = ("b", lambda x: im.keep_alive_listen_key("BTCUSDT", x), False)
    E["binance.cross.transfer.asset"] = ("b", lambda x: cm.transfer_from_spot_account(x, D("0.00000085")), True)
    E["binance.iso.transfer.asset"] = ("b", lambda x: im.transfer_to_spot_account(x, "BTCUSDT", D("1E+3")), True)
    E["bitstamp.limit.client_id"] = ("s", lambda x: s.create_limit_order("buy", "btcusd", D("1"), D("0.00000085"), client_order_id=x), True)
    E["bitstamp.market.client_id"] = ("s", lambda x: s.create_market_order("sell", "btcusd", D("1E+3"), client_order_id=x), True)
    E["bitstamp.instant.client_id"] = ("s", lambda x: s.create_instant_order("sell", "btcusd", D("1"), amount_in_counter=True, client_order_id=x), True)
    E["bitstamp.limit.kwarg"] = ("s", lambda x: s.create_limit_order("sell", "btcusd", D("1"), D("2"), limit_price=x), True)
    E["bitstamp.order_status.client_id"] = ("s", lambda x: s.get_order_status(client_order_id=x), True)
    E["bitstamp.order_status.id"] = ("s", lambda x: s.get_order_status(id=x, omit_transactions=True), True)
    E["bitstamp.cancel_order.id"] = ("s", lambda x: s.cancel_order(x), True)
    return E


def fixed_endpoints(b, s):
    """Endpoints without a free-form argument: called once each."""
    sp, cm, im = b.spot_account, b.cross_margin_account, b.isolated_margin_account
    return {
        "binance.spot.account": ("b", lambda: sp.get_account_information(), True),
        "binance.cross.account": ("b", lambda: cm.get_account_information(), True),
        "binance.iso.account": ("b", lambda: im.get_account_information(), True),
        "binance.spot.open_orders.all": ("b", lambda: sp.get_open_orders(), True),
        "binance.spot.query_order.id": ("b", lambda: sp.query_order("BTCUSDT", order_id=12345678901), True),
        "binance.cross.cancel_order.id": ("b", lambda: cm.cancel_order("BTCUSDT", order_id=1), True),
        "binance.cross.transfer_out": ("b", lambda: cm.transfer_to_spot_account("BTC", D("1234.5678")), True),
        "binance.iso.transfer_in": ("b", lambda: im.transfer_from_spot_account("BTC", "BTCUSDT", D("0.00000085")), True),
        "binance.spot.create_listen_key": ("b", lambda: sp.create_listen_key(), False),
        "binance.cross.create_listen_key": ("b", lambda: cm.create_listen_key(), False),
        "binance.iso.create_listen_key": ("b", lambda: im.create_listen_key("BTCUSDT"), False),
        "bitstamp.websocket_token": ("s", lambda: s.get_websocket_auth_token(), True),
        "bitstamp.balances": ("s", lambda: s.get_account_balances(), True),
        "bitstamp.balance": ("s", lambda: s.get_account_balance("btc"), True),
        "bitstamp.open_orders.all": ("s", lambda: s.get_open_orders(), True),
        "bitstamp.open_orders.pair": ("s", lambda: s.get_open_orders("btcusd"), True),
        "bitstamp.order_status.int": ("s", lambda: s.get_order_status(id=1234), True),
        "bitstamp.cancel_order.int": ("s", lambda: s.cancel_order(1234), True),
    }


def endpoint_names():
    return sorted(endpoints(_Dummy(), _Dummy()).keys()) + ["<fixed>"]


class _Dummy:
    def __getattr__(self, name):
        return _Dummy()

    def __call__(self, *a, **k):
        return None


def scenarios(tier, seed):
    return [(name,) for name in endpoint_names()] + [("<throttled>",), ("<decimal-kwargs>",)]


async def _run_throttled(res):
    """Clients with a token bucket whose bucket is exhausted: the signed timestamp must be current when the request is
    SENT, i.e. taken after the throttling wait. The clock only advances when a client sleeps."""
    import asyncio as real_asyncio
    import types
    from basana.core import token_bucket
    from basana.external.binance import client as bcli
    from basana.external.bitstamp import client as scli
    import basana.external.binance.client.base as bbase
    import basana.external.bitstamp.helpers as shelp
    import basana.external.bitstamp.client as sclient

    class Clock:
        now = H.NOW
    clk = Clock()
    fake_time = types.SimpleNamespace(time=lambda: clk.now)

    async def fake_sleep(d):
        clk.now += d
        await real_asyncio.sleep(0)
    fake_asyncio = types.SimpleNamespace(sleep=fake_sleep)
    saved = (bbase.time, shelp.time, token_bucket.time, bbase.asyncio, sclient.asyncio)
    bbase.time = shelp.time = token_bucket.time = fake_time
    bbase.asyncio = sclient.asyncio = fake_asyncio
    srv = H.Server()
    srv.clock = lambda: clk.now
    await srv.start()
    try:
        conn = aiohttp.TCPConnector(resolver=H.resolver(srv.port))
        async with aiohttp.ClientSession(connector=conn) as session:
            for tpp, per, initial, nreq in ((1, 2.5, 1, 3), (2, 1, 0, 3), (1, 7, 1, 2)):
                b = bcli.APIClient(H.KEY, H.SECRET, session=session, config_overrides=H.BINANCE_URL,
                                   tb=token_bucket.TokenBucketLimiter(tpp, per, initial))
                s = scli.APIClient(H.KEY, H.SECRET, session=session, config_overrides=H.BITSTAMP_URL,
                                   tb=token_bucket.TokenBucketLimiter(tpp, per, initial))
                calls = [("binance.spot.account", "b", lambda: b.spot_account.get_account_information()),
                         ("binance.cross.query_order", "b", lambda: b.cross_margin_account.query_order("BTCUSDT", order_id=1)),
                         ("binance.spot.create_order", "b", lambda: b.spot_account.create_order("BTCUSDT", "BUY", "MARKET", quantity=D("1"))),
                         ("bitstamp.balances", "s", lambda: s.get_account_balances()),
                         ("bitstamp.limit", "s", lambda: s.create_limit_order("buy", "btcusd", D("1"), D("2")))]
                for n, ex, fn in calls:
                    for k in range(nreq):
                        srv.reqs.clear()
                        before = clk.now
                        err = None
                        try:
                            await fn()
                        except Exception as e:  # noqa
                            err = f"client raised {type(e).__name__}: {e}"
                        waited = clk.now - before
                        res.executions += 1
                        res.transitions += 1
                        res.validated += 1
                        key = h64(("throttled", tpp, per, initial, n, k))
                        res.states.add(key)
                        if waited > 0:
                            res.nontrivial.add(key)
                        if err is None:
                            req = srv.reqs[-1]
                            err = H.verify_binance(req, True, now=req["arrived"]) if ex == "b" else H.verify_bitstamp(req, now=req["arrived"])
                        res.outcomes["verified" if err is None else "rejected"] += 1
                        if err is not None:
                            res.violation(f"{PROPERTY}:{'binance' if ex == 'b' else 'bitstamp'}:stale-timestamp-when-throttled",
                                          f"{err}; endpoint={n} request #{k} after a throttling wait of {waited}s "
                                          f"(bucket {tpp}/{per}s, initial {initial})",
                                          dict(endpoint="<throttled>", value=None), size=k)
    finally:
        await srv.stop()
        bbase.time, shelp.time, token_bucket.time, bbase.asyncio, sclient.asyncio = saved
    res.samples.append(dict(endpoint="<throttled>", buckets=[[1, 2.5, 1], [2, 1, 0], [1, 7, 1]]))


async def _run_decimal_kwargs(res):
    """Extra keyword arguments that are decimals (any exponent form): what is signed must be what is sent."""
    from basana.external.binance import client as bcli
    from basana.external.bitstamp import client as scli
    H.patch_time()
    srv = H.Server()
    await srv.start()
    try:
        conn = aiohttp.TCPConnector(resolver=H.resolver(srv.port))
        async with aiohttp.ClientSession(connector=conn) as session:
            b = bcli.APIClient(H.KEY, H.SECRET, session=session, config_overrides=H.BINANCE_URL)
            s = scli.APIClient(H.KEY, H.SECRET, session=session, config_overrides=H.BITSTAMP_URL)
            decs = [D(c).scaleb(e) for c in (1, 85, 1230) for e in range(-12, 13)] + [D("30000").normalize(), D("0E-8")]
            calls = {
                "binance.spot.create_order.kwarg": ("b", lambda x: b.spot_account.create_order("BTCUSDT", "BUY", "LIMIT", quantity=D("1"), price=D("2"), icebergQty=x)),
                "binance.cross.create_oco.kwarg": ("b", lambda x: b.cross_margin_account.create_oco("BTCUSDT", "SELL", D("1"), D("3"), D("2"), trailingDelta=x)),
                "bitstamp.limit.kwarg": ("s", lambda x: s.create_limit_order("sell", "btcusd", D("1"), D("2"), limit_price=x)),
                "bitstamp.market.kwarg": ("s", lambda x: s.create_market_order("buy", "btcusd", D("1"), some_option=x)),
                "bitstamp.instant.kwarg": ("s", lambda x: s.create_instant_order("buy", "btcusd", D("1"), some_option=x)),
            }
            for n, (ex, fn) in calls.items():
                for x in decs:
                    srv.reqs.clear()
                    err = None
                    try:
                        await fn(x)
                    except Exception as e:  # noqa
                        err = f"client raised {type(e).__name__}: {e}"
                    res.executions += 1
                    res.transitions += 1
                    res.validated += 1
                    key = h64(("deckw", n, str(x)))
                    res.states.add(key)
                    if "E" in str(x):
                        res.nontrivial.add(key)
                    if err is None:
                        req = srv.reqs[-1]
                        err = H.verify_binance(req, True) if ex == "b" else H.verify_bitstamp(req)
                    res.outcomes["verified" if err is None else "rejected"] += 1
                    if err is not None:
                        res.violation(f"{PROPERTY}:{'binance' if ex == 'b' else 'bitstamp'}:{err.split(' over ')[0][:40]}:decimal-kwarg",
                                      f"{err}; endpoint={n} keyword argument value {x!r}", dict(endpoint="<decimal-kwargs>", value=None),
                                      size=len(str(x)))
    finally:
        await srv.stop()
    res.samples.append(dict(endpoint="<decimal-kwargs>", example="limit_price=Decimal('3E+4')"))


async def _run(name, tier, res):
    from basana.external.binance import client as bcli
    from basana.external.bitstamp import client as scli
    H.patch_time()
    srv = H.Server()
    await srv.start()
    nonces = []
    try:
        conn = aiohttp.TCPConnector(resolver=H.resolver(srv.port))
        async with aiohttp.ClientSession(connector=conn) as session:
            b = bcli.APIClient(H.KEY, H.SECRET, session=session, config_overrides=H.BINANCE_URL)
            s = scli.APIClient(H.KEY, H.SECRET, session=session, config_overrides=H.BITSTAMP_URL)
            if name == "<fixed>":
                calls = [(n, ex, fn, signed, None) for n, (ex, fn, signed) in fixed_endpoints(b, s).items()]
            else:
                ex, fn, signed = endpoints(b, s)[name]
                calls = [(name, ex, (lambda x=x, fn=fn: fn(x)), signed, x) for x in strings(tier)]
            for n, ex, fn, signed, x in calls:
                srv.reqs.clear()
                err = None
                random.seed(20240101)  # an application that (re)seeds the global RNG must not make nonces repeat
                try:
                    await fn()
                except Exception as e:  # noqa
                    err = f"client raised {type(e).__name__}: {e}"
                res.executions += 1
                res.transitions += 1
                res.validated += 1
                key = h64((n, x))
                res.states.add(key)
                if x is None or any(c in SPECIAL or not c.isalnum() for c in x):
                    res.nontrivial.add(key)
                if err is None:
                    if len(srv.reqs) != 1:
                        err = f"{len(srv.reqs)} requests received"
                    else:
                        req = srv.reqs[-1]
                        if ex == "b":
                            err = H.verify_binance(req, signed)
                            if err is None and req["host"] != "api.binance.com":
                                err = f"Host header {req['host']}"
                        else:
                            err = H.verify_bitstamp(req)
                            nonces.append(req["headers"].get("X-Auth-Nonce"))
                res.outcomes["verified" if err is None else "rejected"] += 1
                case = dict(endpoint=n, value=x)
                if not res.samples and x is not None and err is None:
                    res.samples.append(dict(case, raw_path=srv.reqs[-1]["raw_path"], body=srv.reqs[-1]["body"].decode()))
                if err is not None:
                    chars = "" if x is None else "".join(sorted(set(c for c in x if not c.isalnum())))
                    where = "query" if (srv.reqs and "?" in srv.reqs[-1]["raw_path"] and x is not None) else "body-or-none"
                    res.violation(f"{PROPERTY}:{'binance' if ex == 'b' else 'bitstamp'}:{err.split(' over ')[0][:40]}:{where}",
                                  f"{err}; endpoint={n} value={x!r} (special characters {chars!r})", case,
                                  size=len(x or ""))
    finally:
        await srv.stop()
    if len(set(nonces)) != len(nonces):
        res.violation(f"{PROPERTY}:bitstamp:nonce-repeated", f"{len(nonces) - len(set(nonces))} repeated nonces in {len(nonces)} "
                      f"requests", dict(endpoint=name, value=None), size=1)


def run_scenario(sc, tier):
    res = Result()
    if sc[0] == "<throttled>":
        asyncio.run(_run_throttled(res))
    elif sc[0] == "<decimal-kwargs>":
        asyncio.run(_run_decimal_kwargs(res))
    else:
        asyncio.run(_run(sc[0], tier, res))
    return res


def replay(rep):
    res = Result()
    name = rep["endpoint"]
    if name in ("<throttled>", "<decimal-kwargs>"):
        asyncio.run(_run_throttled(res) if name == "<throttled>" else _run_decimal_kwargs(res))
        return [v["message"] for v in res.violations][:5]

    async def one():
        from basana.external.binance import client as bcli
        from basana.external.bitstamp import client as scli
        H.patch_time()
        srv = H.Server()
        await srv.start()
        try:
            conn = aiohttp.TCPConnector(resolver=H.resolver(srv.port))
            async with aiohttp.ClientSession(connector=conn) as session:
                b = bcli.APIClient(H.KEY, H.SECRET, session=session, config_overrides=H.BINANCE_URL)
                s = scli.APIClient(H.KEY, H.SECRET, session=session, config_overrides=H.BITSTAMP_URL)
                table = endpoints(b, s)
                if name in table:
                    ex, fn, signed = table[name]
                    await fn(rep["value"])
                else:
                    ex, fn, signed = fixed_endpoints(b, s)[name]
                    await fn()
                req = srv.reqs[-1]
                print("request line:", req["method"], req["raw_path"])
                print("headers:", {k: v for k, v in req["headers"].items() if k.startswith("X-") or k in ("Host", "Content-Type")})
                print("body:", req["body"])
                return H.verify_binance(req, signed) if ex == "b" else H.verify_bitstamp(req)
        finally:
            await srv.stop()
    err = asyncio.run(one())
    return [err] if err else []

"""C20 - token bucket bounds the request rate (DESIGN.md section 4, C20).

The real TokenBucketLimiter under a substituted time source (mc.vtime.VirtualTime: every clock function of the `time`
module reads one virtual clock). Families, each enumerated exhaustively within its bounds:

  grid        every arrival sequence of <= 5 (quick) / 6 (thorough) requests with gaps from {0, 1/4, 1/2, 1, 2, 5, 20}
              periods, tokens-per-period {0.5, 1, 2, 3}, period {1, 2, 5}, initial tokens {0, 1, 3, 5};
  offgrid     every arrival sequence of <= 4 / 5 requests with gaps OFF the quarter-period grid ({0, 1/3, 1/7, 1/4000,
              1e-5, 3/2, 3} periods), fractional rates {0.3, 1.5, 10, 20}, fractional periods {0.1, 1, 7}, fractional
              initial tokens {0, 0.5, 2.5}, a non-integer epoch;
  reads       sequences of <= 3 (thorough 4) requests with gaps {0, 1/4, 1, 2} periods where, before every request, the public
              read-only property `limiter.tokens` is read 0, 1 or 2 times at chosen instants of the gap (1/2; the arrival
              instant itself; the instant of the previous request and 1/2; 1/4 and 3/4): a read is an observation and must
              not change any later wait;
  long        periodic arrival patterns (every pattern of 1 or 2 gaps from 8 gap sizes given in token slots) repeated up to
              3000 / 20000 requests, so that drift accumulates;
  concurrent  callers really suspended on the virtual loop: n simultaneous callers, a second burst after a gap; the caller
              is limiter.wait() itself, or a request made through the real Binance / Bitstamp REST client (built with
              tb=limiter and a stub HTTP session) - the send instant is the instant the request reaches the session;
  cancel      callers queued in wait() / in the REST clients; the chooser picks WHEN (one of three instants) a cancellation
              round happens, WHICH of the pending callers are cancelled (every subset), and how many new callers arrive at
              that instant and one and a quarter slots later.

Oracles (reads family in addition): the waits equal those of the same arrival sequence without reads; every value read is
the whole part of the reference's balance (as left by the last request, or refilled to the instant of the read - the
statement leaves open which - never negative, capped).
Oracles: waits >= 0; every wait equals the wait of a textbook token bucket over exact rationals (i.e. the k-th request of
a burst is delayed by max(0, k - a) / rate); the window bound capacity + rate x L + 1 over every window of the requests
that were actually sent.
"""
import asyncio
import itertools
import math
from fractions import Fraction as F

from basana.core import token_bucket

from mc import chooser
from mc.framework import Result, h64
from mc.vloop import VLoop
from mc.vtime import VirtualTime

PROPERTY = "C20"
RULE = ("case = (tokens per period, period, initial tokens, sequence of gaps between requests) for the grid / offgrid / long "
        "families, (caller kind, configuration, burst sizes, gap) for concurrent callers, (caller kind, configuration, "
        "number of queued callers, instant of the cancellation round, subset cancelled, new arrivals) for the cancel "
        "family, (configuration, sequence of (gap, instants at which `tokens` is read)) for the reads family; all cases within the bounds are executed on the real limiter (and the real REST clients) with a "
        "substituted clock. Distinct = distinct cases; non-trivial = at least one request had to wait.")
ASSUMPTIONS = [
    "the `time` attribute of basana.core.token_bucket (and of the Binance REST client module) is replaced by a proxy of the "
    "time module whose time / time_ns / monotonic / perf_counter all read one virtual clock; floating point waits are "
    "compared with the exact-rational reference within 1e-9 (relative and absolute)",
    "for initial tokens > tokens per period both readings of 'available' (capped at once / capped on the first refill) are "
    "accepted, as the statement allows",
    "`tokens` (an int) may report the balance left by the last request or the balance refilled to the instant of the read; "
    "both are accepted, with the whole part taken within 1e-9 of a token; reading it must not change any later wait",
    "REST clients: stub HTTP session answering every request with an empty JSON object; a request counts as sent at the "
    "virtual instant at which the client hands it to the session; only the window bound (and completion of every call) is "
    "demanded of the clients, not exact send instants",
    "cancelled callers send nothing; under cancellation only the window bound over the requests that were sent is demanded "
    "(the statement does not say what happens to the token of a caller that gave up)",
]
BOUNDS = {"quick": dict(max_requests=5, offgrid_requests=4, long_requests=3000, cancel_queued=(3, 5), reads_requests=3),
          "thorough": dict(max_requests=6, offgrid_requests=5, long_requests=20000, cancel_queued=(3, 5, 6), reads_requests=4)}
EXPLANATION = ("bounded exhaustive enumeration of arrival sequences, periodic long runs, concurrent callers and cancellation "
               "choices against the real limiter and the real REST clients; every case is an implementation run")
GAPS = (F(0), F(1, 4), F(1, 2), F(1), F(2), F(5), F(20))
TPPS = (0.5, 1, 2, 3)
PERIODS = (1, 2, 5)
INITS = (0, 1, 3, 5)
T0 = 1_700_000_000.0

# off the quarter-period grid
OFF_GAPS = (F(0), F(1, 3), F(1, 7), F(1, 4000), F(1, 100000), F(3, 2), F(3))
OFF_TPPS = (0.3, 1.5, 10, 20)
OFF_PERIODS = (0.1, 1, 7)
OFF_INITS = (0, 0.5, 2.5)
T0_OFF = 1_700_000_000.37

# long periodic runs: gaps in token slots (1 slot = 1 / rate seconds)
LONG_GAPS = (F(0), F(1, 4000), F(1, 7), F(1, 3), F(999, 1000), F(1), F(1001, 1000), F(3))
LONG_CONFIGS = ((3, 1, 0), (0.3, 0.1, 0.5), (1.5, 7, 2.5), (20, 60, 5), (1, 1, 0))

# read-only observations of `limiter.tokens` between requests: gap (periods) x instants of the reads (fractions of the gap)
READ_GAPS = (F(0), F(1, 4), F(1), F(2))
READ_PATTERNS = ((), (F(1, 2),), (F(1),), (F(0), F(1, 2)), (F(1, 4), F(3, 4)))
READ_CONFIGS = [(tpp, per, init) for tpp in (0.5, 1, 3) for per in (1, 2) for init in (0, 1, 5)]

KINDS = ("wait", "binance", "bitstamp")
CLIENT_CONFIGS = [(tpp, per, init) for tpp in (0.5, 1, 3) for per in (1, 2) for init in (0, 3)]
CANCEL_INSTANTS = (F(1, 2), F(7, 4), F(13, 4))  # in slots after the burst
CANCEL_ARRIVALS_1 = (0, 2, 3)
CANCEL_ARRIVALS_2 = (0, 2)


def scenarios(tier, seed):
    out = [(tpp, per, init, g0) for tpp in TPPS for per in PERIODS for init in INITS for g0 in range(len(GAPS))]
    out += [("offgrid", tpp, per, init) for tpp in OFF_TPPS for per in OFF_PERIODS for init in OFF_INITS]
    out += [("reads", tpp, per, init, g0) for (tpp, per, init) in READ_CONFIGS for g0 in range(len(READ_GAPS))]
    out += [("long", c, g0) for c in range(len(LONG_CONFIGS)) for g0 in range(len(LONG_GAPS))]
    out += [("concurrent", "wait", tpp, per, init) for tpp in TPPS for per in PERIODS for init in INITS]
    out += [("concurrent", kind, tpp, per, init) for kind in KINDS[1:] for (tpp, per, init) in CLIENT_CONFIGS]
    out += [("cancel", "wait", tpp, per, init) for tpp in TPPS for per in PERIODS for init in INITS]
    out += [("cancel", kind, tpp, per, init) for kind in KINDS[1:] for (tpp, per, init) in CLIENT_CONFIGS]
    return out


# ---- time seam ------------------------------------------------------------------------------------------------------
class _Patched:
    """Installs a VirtualTime proxy as the `time` attribute of every module that may read the clock (looked up defensively:
    a module that stops importing time is simply left alone)."""

    def __init__(self, now_fn, advance_fn=None, clients=False):
        self.vt = VirtualTime(now_fn, advance_fn)
        self.mods = [token_bucket]
        if clients:
            from basana.external.binance.client import base as bbase
            from basana.external.bitstamp import client as sclient
            self.mods += [bbase, sclient]
        self.saved = []

    def __enter__(self):
        for m in self.mods:
            if getattr(m, "time", None) is not None:
                self.saved.append((m, m.time))
                m.time = self.vt
        return self

    def __exit__(self, *a):
        for m, t in self.saved:
            m.time = t


class _Clock:
    def __init__(self, t0):
        self.now = t0


# ---- stub HTTP session ------------------------------------------------------------------------------------------------
class _StubResp:
    headers = {"Content-Type": "application/json"}
    ok = True
    status = 200
    reason = "OK"

    async def json(self):
        return {}

    async def text(self):
        return "{}"


class _StubCtx:
    async def __aenter__(self):
        await asyncio.sleep(0)
        return _StubResp()

    async def __aexit__(self, *a):
        return False


class StubSession:
    """Records the virtual instant at which each request is handed to the session."""

    def __init__(self, loop, sends):
        self.loop, self.sends = loop, sends

    def _req(self, method, url, **kw):
        self.sends.append((self.loop.time(), f"{method} {url}"))
        return _StubCtx()

    def get(self, url, **kw):
        return self._req("GET", url, **kw)

    def post(self, url, **kw):
        return self._req("POST", url, **kw)

    def put(self, url, **kw):
        return self._req("PUT", url, **kw)

    def delete(self, url, **kw):
        return self._req("DELETE", url, **kw)


def make_caller(kind, tb, loop, sends, failures):
    """Returns an async function caller(i) that makes one request and records when it was sent."""
    if kind == "wait":
        async def caller(i):
            await tb.wait()
            sends.append((loop.time(), i))
        return caller
    sess = StubSession(loop, sends)
    if kind == "binance":
        from basana.external.binance import client as bcli
        cli = bcli.APIClient("key", "secret", session=sess, tb=tb)
        # public, signed, key-only and signed DELETE requests in turn: the throttle is not a matter of the request type
        methods = [lambda: cli.get_exchange_info(), lambda: cli.spot_account.get_account_information(),
                   lambda: cli.spot_account.create_listen_key(), lambda: cli.spot_account.cancel_order("BTCUSDT", order_id=1)]
    else:
        from basana.external.bitstamp import client as scli
        cli = scli.APIClient("key", "secret", session=sess, tb=tb)
        methods = [lambda: cli.get_ticker("btcusd"), lambda: cli.get_account_balances(),
                   lambda: cli.get_order_book("btcusd"), lambda: cli.get_open_orders()]

    async def caller(i):
        try:
            await methods[i % len(methods)]()
        except asyncio.CancelledError:
            raise
        except Exception as e:  # noqa - the stub answers every request: a failing call is the client's doing
            failures.append(f"{type(e).__name__}: {e}"[:100])
    return caller


# ---- oracles ------------------------------------------------------------------------------------------------------------
def reference(tpp, per, init, times, cap, t0=T0):
    """Textbook bucket over exact rationals: refill at rate up to cap, take one token, convert debt into a wait."""
    rate = F(tpp) / F(per)
    tokens = min(F(init), cap)
    last = F(t0)
    waits = []
    for t in times:
        tokens = min(cap, tokens + (t - last) * rate)
        last = t
        tokens -= 1
        waits.append(F(0) if tokens >= 0 else -tokens / rate)
    return waits


def window_bound(sends, capacity, rate, tol):
    """sends sorted ascending. Returns (count, length) of a violating window or None. count <= capacity + rate x L + 1 for
    every pair a <= b is (b - rate s_b) - (a - rate s_a) <= capacity: one pass with a running minimum."""
    best = None
    for b, s in enumerate(sends):
        f = b - rate * s
        if best is None or f < best[0]:
            best = (f, b)
        if f - best[0] > capacity + tol:
            a = best[1]
            return b - a + 1, sends[b] - sends[a]
    return None


def close(ws, rs):
    return all(abs(F(w) - r) <= F(1, 10 ** 9) * max(1, r) for w, r in zip(ws, rs))


# ---- concurrent callers (no cancellation) ---------------------------------------------------------------------------
def run_concurrent_case(kind, tpp, per, init, n1, n2, gap):
    rate = F(tpp) / per
    capacity = max(F(tpp), F(init))
    loop = VLoop()
    sends, failures = [], []

    def advance(d):
        loop._vtime += d
    with _Patched(lambda: T0 + loop.time(), advance, clients=kind != "wait"):
        try:
            async def main():
                tb = token_bucket.TokenBucketLimiter(tpp, per, init)
                caller = make_caller(kind, tb, loop, sends, failures)
                tasks = [asyncio.ensure_future(caller(i)) for i in range(n1)]
                if n2:
                    await asyncio.sleep(float(gap * per))
                    tasks += [asyncio.ensure_future(caller(n1 + i)) for i in range(n2)]
                await asyncio.gather(*tasks)
            out = "ok"
            try:
                t = loop.run(main(), horizon=10 ** 6)
                if t.exception() is not None:
                    out = f"raised {t.exception()!r}"[:120]
            except Exception as e:  # noqa - Deadlock / Horizon / StepCap
                out = type(e).__name__
        finally:
            loop.shutdown()
    # reference: requests arrive at 0 (n1 of them) and at gap*per (n2), in that order
    arrivals = [F(T0)] * n1 + [F(T0) + gap * per] * n2
    refs = [reference(tpp, per, init, arrivals, F(tpp)), reference(tpp, per, init, arrivals, capacity)]
    got = sorted(F(t) for t, _ in sends)
    bad = []
    if out != "ok":
        bad.append(("callers-run", out))
    if failures:
        bad.append(("client-call-failed", failures[0]))
    if len(got) != n1 + n2 and not bad:
        bad.append(("requests-not-sent", f"{len(got)} of {n1 + n2} requests reached the session"))

    def expect(ws):
        return sorted((a - F(T0)) + w for a, w in zip(arrivals, ws))
    if kind == "wait" and not any(len(got) == len(r) and
                                  all(abs(g - x) <= F(1, 10 ** 6) * max(1, x) for g, x in zip(got, expect(r))) for r in refs):
        bad.append(("concurrent-send-times", f"send times {[float(g) for g in got]}, exact bucket gives "
                    f"{[float(x) for x in expect(refs[0])]}"))
    w = window_bound(got, capacity, rate, F(1, 10 ** 6))
    if w:
        bad.append(("window-bound", f"{w[0]} requests sent within {float(w[1])}s by concurrent callers; capacity "
                    f"{float(capacity)}, rate {float(rate)}/s"))
    return bad, got


def run_concurrent(sc, res):
    """Callers that really wait: n tasks suspended in limiter.wait() (or inside a REST client's request) at the same time on
    the virtual loop (two bursts, the second after a gap). Send times must satisfy the window bound and, for wait() itself,
    be those of the exact-rational bucket."""
    _, kind, tpp, per, init = sc
    for n1 in (1, 2, 3, 5, 8, 12):
        for n2, gap in ((0, F(0)), (3, F(1, 2)), (4, F(2))):
            bad, got = run_concurrent_case(kind, tpp, per, init, n1, n2, gap)
            res.executions += 1
            res.transitions += n1 + n2
            res.validated += 1
            key = h64((sc, n1, n2, str(gap)))
            res.states.add(key)
            res.nontrivial.add(key)
            res.outcomes[f"concurrent:{kind}"] += 1
            case = dict(kind="concurrent", caller=kind, tokens_per_period=tpp, period=per, initial=init, burst=n1,
                        second_burst=n2, gap_in_periods=str(gap))
            for clause, detail in bad:
                res.violation(f"{PROPERTY}:{clause}:{kind}", f"{detail}; {case}", case, size=n1 + n2)
    res.samples.append(dict(kind="concurrent", caller=kind, tokens_per_period=tpp, period=per, initial=init))
    return res


# ---- cancellation ---------------------------------------------------------------------------------------------------
def run_cancel_once(kind, tpp, per, init, queued, ch):
    """One execution: floor(capacity) + queued callers at t=0; at ONE of three instants (chooser) every pending caller is
    either cancelled or not (chooser, every subset), new callers arrive then and 1.25 slots later (chooser)."""
    rate = F(tpp) / per
    slot = float(1 / rate)
    capacity = max(F(tpp), F(init))
    n1 = int(math.floor(capacity)) + queued
    loop = VLoop()
    sends, failures = [], []
    info = dict(cancelled=0, arrivals=0)

    def advance(d):
        loop._vtime += d
    with _Patched(lambda: T0 + loop.time(), advance, clients=kind != "wait"):
        try:
            async def main():
                tb = token_bucket.TokenBucketLimiter(tpp, per, init)
                caller = make_caller(kind, tb, loop, sends, failures)
                tasks = [asyncio.ensure_future(caller(i)) for i in range(n1)]
                when = CANCEL_INSTANTS[ch.choose(len(CANCEL_INSTANTS), "when")]
                await asyncio.sleep(float(when) * slot)
                for t in list(tasks):
                    if not t.done() and ch.choose(2, "cancel"):
                        t.cancel()
                        info["cancelled"] += 1
                for extra, alphabet in ((0, CANCEL_ARRIVALS_1), (1.25, CANCEL_ARRIVALS_2)):
                    if extra:
                        await asyncio.sleep(extra * slot)
                    k = alphabet[ch.choose(len(alphabet), "arrivals")]
                    info["arrivals"] += k
                    tasks += [asyncio.ensure_future(caller(len(tasks) + i)) for i in range(k)]
                await asyncio.gather(*tasks, return_exceptions=True)
            out = "ok"
            try:
                t = loop.run(main(), horizon=10 ** 6)
                if t.exception() is not None:
                    out = f"raised {t.exception()!r}"[:120]
            except Exception as e:  # noqa
                out = type(e).__name__
        finally:
            loop.shutdown()
    got = sorted(F(t) for t, _ in sends)
    bad = []
    if out != "ok":
        bad.append(("callers-run", out))
    if failures:
        bad.append(("client-call-failed", failures[0]))
    w = window_bound(got, capacity, rate, F(1, 10 ** 6))
    if w:
        bad.append(("window-bound", f"{w[0]} requests sent within {float(w[1])}s although every request that was sent waited "
                    f"what the limiter asked ({info['cancelled']} queued callers were cancelled, {info['arrivals']} arrived "
                    f"later); capacity {float(capacity)}, rate {float(rate)}/s"))
    return bad, got, info


def run_cancel(sc, tier, res):
    _, kind, tpp, per, init = sc
    for queued in BOUNDS[tier]["cancel_queued"]:
        def run_one(ch, queued=queued):
            return run_cancel_once(kind, tpp, per, init, queued, ch)
        for choices, trace, (bad, got, info) in chooser.explore(run_one, None):
            res.executions += 1
            res.transitions += len(trace)
            res.validated += 1
            key = h64((sc, queued, tuple(choices)))
            res.states.add(key)
            if info["cancelled"]:
                res.nontrivial.add(key)
            res.outcomes[f"cancel:{kind}:{'some' if info['cancelled'] else 'none'} cancelled"] += 1
            case = dict(kind="cancel", caller=kind, tokens_per_period=tpp, period=per, initial=init, queued=queued,
                        choices=list(choices))
            if not res.samples and info["cancelled"] >= 2 and info["arrivals"]:
                res.samples.append(case)
            for clause, detail in bad:
                res.violation(f"{PROPERTY}:{clause}:cancel-{kind}", f"{detail}; {case}", case,
                              size=queued + info["cancelled"] + info["arrivals"])


# ---- sequences of consume() -------------------------------------------------------------------------------------------
def run_case(tpp, per, init, gaps, t0=T0, full_window=True):
    """gaps: in periods. Runs the sequence on the real limiter; returns (problems, waits)."""
    clock = _Clock(t0)

    def advance(d):
        clock.now += d
    with _Patched(lambda: clock.now, advance):
        tb = token_bucket.TokenBucketLimiter(tpp, per, init)
        times = []
        waits = []
        t = F(t0)
        fper = F(per)
        for g in gaps:
            t += g * fper
            clock.now = float(t)
            times.append(F(clock.now))
            waits.append(tb.consume())
    return judge(tpp, per, init, times, waits, t0), waits


def judge(tpp, per, init, times, waits, t0):
    bad = []
    rate = F(tpp) / F(per)
    capacity = max(F(tpp), F(init))
    if any(w < 0 for w in waits):
        bad.append(("negative-wait", f"waits {waits[:12]}"))
    sends = sorted(ti + F(w) for ti, w in zip(times, waits))
    # tolerance: one part in 1e9 of a token
    w = window_bound(sends, capacity, rate, F(1, 10 ** 9))
    if w:
        bad.append(("window-bound", f"{w[0]} requests sent within {float(w[1])}s; capacity {float(capacity)}, rate "
                    f"{float(rate)}/s"))
    refs = [reference(tpp, per, init, times, F(tpp), t0), reference(tpp, per, init, times, capacity, t0)]
    if not any(close(waits, r) for r in refs):
        i = next(i for i in range(len(waits)) if not any(close(waits[:i + 1], r[:i + 1]) for r in refs))
        bad.append(("wait-amount", f"request #{i + 1} of {len(waits)}: wait {waits[i]!r}, a token bucket over exact rationals "
                    f"gives {float(refs[0][i])!r}"))
    return bad


def run_reads_case(tpp, per, init, steps):
    """steps: ((gap in periods, fractions of the gap at which `tokens` is read), ...), one per request."""
    clock = _Clock(T0)

    def advance(d):
        clock.now += d
    reads = []  # (index of the request that follows, instant, value)
    with _Patched(lambda: clock.now, advance):
        tb = token_bucket.TokenBucketLimiter(tpp, per, init)
        times, waits = [], []
        t = F(T0)
        fper = F(per)
        for i, (g, pattern) in enumerate(steps):
            for f in pattern:
                clock.now = float(t + f * g * fper)
                reads.append((i, F(clock.now), tb.tokens))
            t += g * fper
            clock.now = float(t)
            times.append(F(clock.now))
            waits.append(tb.consume())
    bad = judge(tpp, per, init, times, waits, T0)
    # differential: the same arrivals without the reads
    _, plain = run_case(tpp, per, init, [g for g, _ in steps], T0)
    if not close(waits, [F(w) for w in plain]):
        j = next(j for j in range(len(waits)) if not close(waits[j:j + 1], [F(plain[j])]))
        bad.append(("read-changes-wait", f"request #{j + 1}: wait {waits[j]!r} after reading `tokens` {len(reads)} times, "
                    f"{plain[j]!r} for the same arrivals without reads"))
    # the value read: whole part of the balance left by the last request, or of the balance refilled to now
    rate = F(tpp) / F(per)
    eps = F(1, 10 ** 9)
    ok_sets = []
    for cap in {F(tpp), max(F(tpp), F(init))}:
        tokens, last = min(F(init), cap), F(T0)
        after = []  # balance before request i (i.e. as left by request i - 1) and the instant it dates from
        for tm in times:
            after.append((tokens, last))
            tokens = min(cap, tokens + (tm - last) * rate) - 1
            last = tm
        ok_sets.append((cap, after))
    for i, at, v in reads:
        accepted = set()
        for cap, after in ok_sets:
            stale, last = after[i]
            fresh = min(cap, stale + (at - last) * rate)
            for r in (stale, fresh, F(init) if i == 0 else stale):
                for x in (r - eps, r + eps):
                    accepted.add(max(0, math.floor(x)))
        if v not in accepted:
            bad.append(("tokens-value", f"`tokens` read {v!r} before request #{i + 1} at +{float(at - F(T0))}s; the reference balance "
                        f"allows {sorted(accepted)}"))
            break
    return bad, waits, reads


def run_reads(sc, tier, res):
    _, tpp, per, init, g0 = sc
    maxn = BOUNDS[tier]["reads_requests"]
    alphabet = [(g, pat) for g in READ_GAPS for pat in READ_PATTERNS]
    for first in [(READ_GAPS[g0], pat) for pat in READ_PATTERNS]:
        for n in range(1, maxn + 1):
            for tail in itertools.product(alphabet, repeat=n - 1):
                steps = (first,) + tail
                bad, waits, reads = run_reads_case(tpp, per, init, steps)
                res.executions += 1
                res.transitions += n + len(reads)
                res.validated += 1
                key = h64((sc, steps))
                res.states.add(key)
                waited = any(w > 0 for w in waits)
                if waited and reads:
                    res.nontrivial.add(key)
                res.outcomes["reads:" + ("some request waits" if waited else "no wait")] += 1
                case = dict(kind="reads", tokens_per_period=tpp, period=per, initial=init,
                            steps=[[str(g), [str(f) for f in pat]] for g, pat in steps])
                if not res.samples and waited and len(reads) >= 2:
                    res.samples.append(dict(case, waits=waits, values_read=[v for _, _, v in reads]))
                for clause, detail in bad:
                    res.violation(f"{PROPERTY}:{clause}:reads", f"{detail}; {case}", case, size=n + len(reads))


def run_long(sc, tier, res):
    _, c, g0 = sc
    tpp, per, init = LONG_CONFIGS[c]
    n = BOUNDS[tier]["long_requests"]
    slot_in_periods = 1 / F(tpp)  # one slot = 1 / rate seconds = period / tpp, i.e. 1 / tpp periods
    for pattern in [(LONG_GAPS[g0],)] + [(LONG_GAPS[g0], g) for g in LONG_GAPS]:
        gaps = [pattern[i % len(pattern)] * slot_in_periods for i in range(n)]
        bad, waits = run_case(tpp, per, init, gaps, T0_OFF)
        res.executions += 1
        res.transitions += n
        res.validated += 1
        key = h64((sc, pattern))
        res.states.add(key)
        waited = any(w > 0 for w in waits)
        if waited:
            res.nontrivial.add(key)
        res.outcomes["long:some request waits" if waited else "long:no wait"] += 1
        case = dict(kind="long", tokens_per_period=tpp, period=per, initial=init, pattern_in_slots=[str(g) for g in pattern],
                    requests=n)
        if not res.samples and waited:
            res.samples.append(case)
        for clause, detail in bad:
            res.violation(f"{PROPERTY}:{clause}:long", f"{detail}; {case}", case, size=n)


def run_sequences(res, sc, tpp, per, init, first_gaps, alphabet, maxn, t0, label):
    for g0 in first_gaps:
        for n in range(1, maxn + 1):
            for tail in itertools.product(alphabet, repeat=n - 1):
                gaps = (g0,) + tail
                bad, waits = run_case(tpp, per, init, gaps, t0)
                res.executions += 1
                res.transitions += n
                res.validated += 1
                key = h64((sc, gaps))
                res.states.add(key)
                waited = any(w > 0 for w in waits)
                if waited:
                    res.nontrivial.add(key)
                res.outcomes[label + ("some request waits" if waited else "no wait")] += 1
                case = dict(tokens_per_period=tpp, period=per, initial=init, gaps_in_periods=[str(g) for g in gaps], t0=t0)
                if not res.samples and waited:
                    res.samples.append(dict(case, waits=waits))
                for clause, detail in bad:
                    res.violation(f"{PROPERTY}:{clause}", f"{detail}; {case}", case, size=n)


def run_scenario(sc, tier):
    res = Result()
    if sc[0] == "concurrent":
        return run_concurrent(sc, res)
    if sc[0] == "cancel":
        run_cancel(sc, tier, res)
        return res
    if sc[0] == "long":
        run_long(sc, tier, res)
        return res
    if sc[0] == "reads":
        run_reads(sc, tier, res)
        return res
    if sc[0] == "offgrid":
        _, tpp, per, init = sc
        run_sequences(res, sc, tpp, per, init, OFF_GAPS, OFF_GAPS, BOUNDS[tier]["offgrid_requests"], T0_OFF, "offgrid:")
        return res
    tpp, per, init, g0 = sc
    run_sequences(res, sc, tpp, per, init, (GAPS[g0],), GAPS, BOUNDS[tier]["max_requests"], T0, "")
    return res


def replay(rep):
    kind = rep.get("kind")
    if kind == "concurrent":
        bad, got = run_concurrent_case(rep.get("caller", "wait"), rep["tokens_per_period"], rep["period"], rep["initial"],
                                       rep["burst"], rep["second_burst"], F(rep["gap_in_periods"]))
        print("case:", rep, "send times:", [float(g) for g in got])
        return [f"{c}: {d}" for c, d in bad]
    if kind == "cancel":
        ch = chooser.Chooser(rep["choices"])
        bad, got, info = run_cancel_once(rep["caller"], rep["tokens_per_period"], rep["period"], rep["initial"], rep["queued"], ch)
        print("case:", rep)
        print("  choices:", [(tag, c) for (_, c, tag) in ch.trace], info)
        print("  send times (s after the burst):", [float(g) for g in got])
        return [f"{c}: {d}" for c, d in bad]
    if kind == "reads":
        steps = tuple((F(g), tuple(F(f) for f in pat)) for g, pat in rep["steps"])
        bad, waits, reads = run_reads_case(rep["tokens_per_period"], rep["period"], rep["initial"], steps)
        print("case:", rep, "waits:", waits, "values read:", [(i + 1, float(at - F(T0)), v) for i, at, v in reads])
        return [f"{c}: {d}" for c, d in bad]
    if kind == "long":
        tpp, per = rep["tokens_per_period"], rep["period"]
        pattern = [F(g) for g in rep["pattern_in_slots"]]
        gaps = [pattern[i % len(pattern)] / F(tpp) for i in range(rep["requests"])]
        bad, waits = run_case(tpp, per, rep["initial"], gaps, T0_OFF)
        print("case:", rep, "first waits:", waits[:8])
        return [f"{c}: {d}" for c, d in bad]
    gaps = tuple(F(g) for g in rep["gaps_in_periods"])
    bad, waits = run_case(rep["tokens_per_period"], rep["period"], rep["initial"], gaps, rep.get("t0", T0))
    print("case:", rep, "waits:", waits)
    return [f"{c}: {d}" for c, d in bad]

"""C20 - token bucket bounds the request rate (DESIGN.md section 4, C20).

The real TokenBucketLimiter under a substituted time source. Every arrival sequence of <= 5 (quick) / 6 (thorough)
requests with gaps from {0, 1/4, 1/2, 1, 2, 5, 20} periods, for tokens-per-period {0.5, 1, 2, 3}, period {1, 2, 5},
initial tokens {0, 1, 3, 5}. Oracles: waits >= 0; the window bound over every pair of requests; every wait equals the
wait of a textbook token bucket over exact rationals (i.e. the k-th request of a burst is delayed by max(0, k - a) / rate).
"""
import itertools
from fractions import Fraction as F

from basana.core import token_bucket

from mc.framework import Result, h64

PROPERTY = "C20"
RULE = ("case = (tokens per period, period, initial tokens, sequence of gaps between requests); all sequences up to the "
        "length bound are executed on the real limiter with a substituted clock. Distinct = distinct cases; non-trivial = "
        "at least one request had to wait.")
ASSUMPTIONS = [
    "time.time of basana.core.token_bucket is replaced by a settable clock; floating point waits are compared with the "
    "exact-rational reference within 1e-9 (relative and absolute)",
    "for initial tokens > tokens per period both readings of 'available' (capped at once / capped on the first refill) are "
    "accepted, as the statement allows",
]
BOUNDS = {"quick": dict(max_requests=5), "thorough": dict(max_requests=6)}
EXPLANATION = "bounded exhaustive enumeration of arrival sequences against the real limiter; every case is an implementation run"
GAPS = (F(0), F(1, 4), F(1, 2), F(1), F(2), F(5), F(20))
TPPS = (0.5, 1, 2, 3)
PERIODS = (1, 2, 5)
INITS = (0, 1, 3, 5)
T0 = 1_700_000_000.0


class _Clock:
    def __init__(self):
        self.now = T0

    def time(self):
        return self.now


def scenarios(tier, seed):
    out = [(tpp, per, init, g0) for tpp in TPPS for per in PERIODS for init in INITS for g0 in range(len(GAPS))]
    out += [("concurrent", tpp, per, init) for tpp in TPPS for per in PERIODS for init in INITS]
    return out


def run_concurrent(sc, res):
    """Callers that really wait: n tasks suspended in limiter.wait() at the same time on the virtual loop (two bursts, the
    second after a gap). Their send times must be those of the exact-rational bucket and satisfy the window bound."""
    import asyncio
    from mc.vloop import VLoop
    _, tpp, per, init = sc
    rate = F(tpp) / per
    capacity = max(F(tpp), F(init))
    for n1 in (1, 2, 3, 5, 8, 12):
        for n2, gap in ((0, 0), (3, F(1, 2)), (4, F(2))):
            loop = VLoop()
            clock = type("C", (), {"time": staticmethod(lambda: T0 + loop.time())})
            saved = token_bucket.time
            token_bucket.time = clock
            sends = []
            try:
                tb = token_bucket.TokenBucketLimiter(tpp, per, init)

                async def caller(tag):
                    await tb.wait()
                    sends.append((loop.time(), tag))

                async def main():
                    tasks = [asyncio.ensure_future(caller(("a", i))) for i in range(n1)]
                    if n2:
                        await asyncio.sleep(float(gap * per))
                        tasks += [asyncio.ensure_future(caller(("b", i))) for i in range(n2)]
                    await asyncio.gather(*tasks)
                loop.run(main(), horizon=10 ** 6)
            finally:
                loop.shutdown()
                token_bucket.time = saved
            # reference: requests arrive at 0 (n1 of them) and at gap*per (n2), in that order
            arrivals = [F(T0)] * n1 + [F(T0) + gap * per] * n2
            refs = [reference(tpp, per, init, arrivals, F(tpp)), reference(tpp, per, init, arrivals, capacity)]
            got = sorted(F(t) for t, _ in sends)
            bad = []

            def expect(ws):
                return sorted((a - F(T0)) + w for a, w in zip(arrivals, ws))
            if not any(all(abs(g - x) <= F(1, 10 ** 6) * max(1, x) for g, x in zip(got, expect(r))) for r in refs):
                bad.append(("concurrent-send-times", f"send times {[float(g) for g in got]}, exact bucket gives "
                            f"{[float(x) for x in expect(refs[0])]}"))
            for a in range(len(got)):
                for b in range(a, len(got)):
                    if (b - a + 1) > capacity + rate * (got[b] - got[a]) + 1 + F(1, 10 ** 6):
                        bad.append(("window-bound", f"{b - a + 1} requests sent within {float(got[b] - got[a])}s by concurrent "
                                    f"waiters; capacity {float(capacity)}, rate {float(rate)}/s"))
                        break
                else:
                    continue
                break
            res.executions += 1
            res.transitions += n1 + n2
            res.validated += 1
            key = h64((sc, n1, n2, str(gap)))
            res.states.add(key)
            res.nontrivial.add(key)
            res.outcomes["concurrent"] += 1
            case = dict(kind="concurrent", tokens_per_period=tpp, period=per, initial=init, burst=n1, second_burst=n2,
                        gap_in_periods=str(gap))
            for clause, detail in bad:
                res.violation(f"{PROPERTY}:{clause}:wait", f"{detail}; {case}", case, size=n1 + n2)
    res.samples.append(dict(kind="concurrent", tokens_per_period=tpp, period=per, initial=init))
    return res


def reference(tpp, per, init, times, cap):
    """Textbook bucket over exact rationals: refill at rate up to cap, take one token, convert debt into a wait."""
    rate = F(tpp) / per
    tokens = min(F(init), cap)
    last = F(T0)
    waits = []
    for t in times:
        tokens = min(cap, tokens + (t - last) * rate)
        last = t
        tokens -= 1
        waits.append(F(0) if tokens >= 0 else -tokens / rate)
    return waits


def run_case(tpp, per, init, gaps):
    clock = _Clock()
    saved = token_bucket.time
    token_bucket.time = clock
    try:
        tb = token_bucket.TokenBucketLimiter(tpp, per, init)
        times = []
        waits = []
        t = F(T0)
        for g in gaps:
            t += g * per
            clock.now = float(t)
            times.append(F(clock.now))
            waits.append(tb.consume())
    finally:
        token_bucket.time = saved
    bad = []
    rate = F(tpp) / per
    capacity = max(F(tpp), F(init))
    if any(w < 0 for w in waits):
        bad.append(("negative-wait", f"waits {waits}"))
    sends = [ti + F(w) for ti, w in zip(times, waits)]
    n = len(sends)
    order = sorted(range(n), key=lambda i: sends[i])
    for a in range(n):
        for b in range(a, n):
            i, j = order[a], order[b]
            count = b - a + 1
            # tolerance: one part in 1e9 of a token
            if count > capacity + rate * (sends[j] - sends[i]) + 1 + F(1, 10 ** 9):
                bad.append(("window-bound", f"{count} requests sent within {float(sends[j] - sends[i])}s; capacity "
                            f"{float(capacity)}, rate {float(rate)}/s"))
                break
        else:
            continue
        break
    refs = [reference(tpp, per, init, times, F(tpp)), reference(tpp, per, init, times, capacity)]

    def close(ws, rs):
        return all(abs(F(w) - r) <= F(1, 10 ** 9) * max(1, r) for w, r in zip(ws, rs))
    if not any(close(waits, r) for r in refs):
        bad.append(("wait-amount", f"waits {waits}, a token bucket over exact rationals gives {[float(x) for x in refs[0]]}"))
    return bad, waits


def run_scenario(sc, tier):
    res = Result()
    if sc[0] == "concurrent":
        return run_concurrent(sc, res)
    tpp, per, init, g0 = sc
    maxn = BOUNDS[tier]["max_requests"]
    for n in range(1, maxn + 1):
        for tail in itertools.product(GAPS, repeat=n - 1):
            gaps = (GAPS[g0],) + tail
            bad, waits = run_case(tpp, per, init, gaps)
            res.executions += 1
            res.transitions += n
            res.validated += 1
            key = h64((sc, gaps))
            res.states.add(key)
            waited = any(w > 0 for w in waits)
            if waited:
                res.nontrivial.add(key)
            res.outcomes["some request waits" if waited else "no wait"] += 1
            case = dict(tokens_per_period=tpp, period=per, initial=init, gaps_in_periods=[str(g) for g in gaps])
            if not res.samples and waited:
                res.samples.append(dict(case, waits=waits))
            for clause, detail in bad:
                res.violation(f"{PROPERTY}:{clause}", f"{detail}; {case}", case, size=n)
    return res


def replay(rep):
    if rep.get("kind") == "concurrent":
        res = Result()
        run_concurrent(("concurrent", rep["tokens_per_period"], rep["period"], rep["initial"]), res)
        return [v["message"] for v in res.violations][:5]
    gaps = tuple(F(g) for g in rep["gaps_in_periods"])
    bad, waits = run_case(rep["tokens_per_period"], rep["period"], rep["initial"], gaps)
    print("case:", rep, "waits:", waits)
    return [f"{c}: {d}" for c, d in bad]

"""C13 - scheduled jobs run exactly once, on time and in order (DESIGN.md section 4, C13).

Real BacktestingDispatcher on the virtual loop. One source with events at 10, 20, 30; every tuple (= multiset in every
insertion order) of job times over a grid containing past / between / equal / beyond-the-last-event times; jobs
scheduled up front, from event handlers (first and last event) and from another job; an optional raising job;
max_concurrent 1..2; every suspension pattern of handlers and jobs within the deviation bound. A second family ("drain")
has 5 / 6 / 7 jobs beyond the last event in EVERY insertion order (all 120 / 720 / 5040 permutations of distinct times, every 5-tuple
over three times), scheduled up front or from the handler of the last event, on the default schedule (no suspension
choices): what happens to them depends on the shape of the scheduler's heap, not on interleavings.

Order clauses look at the END of jobs and handlers too: a job has finished before an event with a later time starts, and
every event with an earlier time has finished before the job starts. A job whose time EQUALS an event's time may run
before or after that timestamp's events (the statement only orders strictly earlier / later times).
"""
import asyncio
import itertools

import basana as bs

from mc.chooser import Chooser, explore
from mc.framework import Result, h64
from worlds.dsp import Gates, T, run_on_vloop, secs

PROPERTY = "C13"
RULE = ("scenario = (tuple of job times in insertion order, max_concurrent, where each job is scheduled from, raising "
        "job, number of event sources); per scenario every choice sequence (handler/job suspension pattern 0/1/2 yields or external gate, gate "
        "release order) within the deviation bound is executed on the real dispatcher; scenarios with >= 5 jobs (all "
        "beyond the last event, every insertion order) run on the default schedule only. Distinct = distinct "
        "(scenario, invocation trace); non-trivial = at least one job and one event ran.")
ASSUMPTIONS = [
    "job times on a 5-second grid 5..45 plus sub-second times sharing a second (25.2/25.8, 35.2/35.8), events at 10/20/30; at most 3 (quick) / 4 (thorough) jobs",
    "CPython FIFO ready-queue order is kept; only suspension patterns and external completion order are permuted",
    "jobs scheduled during the final drain (after the last event was handled) are outside the property (CHANGELOG 1.6.1)",
    "drain family: 5, 6 and 7 (thorough: 8) jobs at distinct times beyond the last event in all 120 / 720 / 5040 insertion orders, all 243 5-tuples "
    "over {35, 40, 45}; max_concurrent 2; no suspension choices (deviation bound 0)",
    "a job that is started 3 times is not started again: the harness stops the run there and the execution is reported "
    "(job-ran-twice), so a dispatcher that runs one job again and again cannot hang the check; virtual-loop step cap 20 000",
    "jobs scheduled from a running job: for an earlier / equal / later time than the scheduling job's own, the scheduling "
    "job being up front or scheduled from a handler, before the first event / between events / in the final drain (there "
    "only 'at most once' is demanded of the new job, 'exactly once' of the scheduling one); one time (2) earlier than "
    "everything else",
    "failing jobs: ValueError (all scenarios with <= 2 jobs) and, in 32 scenarios, asyncio.CancelledError raised inside the "
    "job (it awaits an already cancelled future) - nobody cancelled the run, so it must go on and return",
    "events that come into being through a job: job 0 (before the last event) pushes an event stamped its own time / its "
    "own time + 0.3 to a second subscribed source; the order clauses between jobs and events apply to that event too",
    "a job with the same time as an event may run before or after that timestamp's events; the clock a job sees is only "
    "bounded from below (the statement says 'at or after its scheduled time')",
]
EVENTS = (10, 20, 30)
import datetime as _dt  # noqa: E402
TZS = (_dt.timezone(_dt.timedelta(hours=-5)), _dt.timezone(_dt.timedelta(hours=5, minutes=30)))
EVENTS_B = (10, 25)  # second source (scenarios with two sources): a tie with the first source and a time in between
TIMES = (5, 10, 15, 25, 30, 35, 40, 45)
# sub-second times sharing a UTC second, between events and beyond the last one
SUBSEC = (25.2, 25.8, 35.8, 35.2)
BOUNDS = {"quick": dict(max_jobs=3, deviation_bound=1, drain_jobs=(5, 6, 7)),
          "thorough": dict(max_jobs=4, deviation_bound=2, drain_jobs=(5, 6, 7, 8))}
EARLY = 2          # a time before everything else (only used for a job scheduled from a job)
RUN_CAP = 3        # a job that is started this often is not started again: the harness stops the run (reported as ran-twice)
DRAIN_TIMES = (31, 32, 33, 34, 36, 37, 38, 39)
EXPLANATION = ("implementation-level model checking: every explored trace is an execution of the real dispatcher; "
               "traces_validated_against_impl counts executions re-run from their recorded choices with identical "
               "observations (determinism check)")


def scenarios(tier, seed):
    out = []
    max_jobs = BOUNDS[tier]["max_jobs"]
    for size in range(1, max_jobs + 1):
        times = TIMES + SUBSEC if size <= 3 else (5, 10, 25, 30, 35, 40, 45, 25.2, 35.2)
        for jt in itertools.product(times, repeat=size):
            modes = [("up",) * size, ("h10",) + ("up",) * (size - 1), ("h30",) + ("up",) * (size - 1)]
            if size >= 2:
                modes.append(("up",) * (size - 1) + ("j0",))
            if size == 2:
                # the job that schedules another job (for an earlier / equal / later time than its own) is itself
                # scheduled from a handler
                modes += [("h10", "j0"), ("h30", "j0")]
            for mode in modes:
                for maxc in (1, 2):
                    for raising in ((None, 0) if size <= 2 else (None,)):
                        out.append((jt, maxc, mode, raising, 1))
                        if size <= 2 and not (mode[0] != "up" and mode[-1] == "j0"):
                            out.append((jt, maxc, mode, raising, 2))
                            if maxc == 1 and raising is None:
                                out.append((jt, maxc, mode, raising, 3))
    # a job (up front, at every time of the grid: before the first event, between events, in the final drain) that
    # schedules a job for a time earlier than every event and every job
    for t0 in TIMES:
        for mode in (("up", "j0"), ("h10", "j0")):
            for maxc in (1, 2):
                for raising in (None, 0):
                    out.append(((t0, EARLY), maxc, mode, raising, 1))
    # a job that fails with asyncio.CancelledError (raising = "c0": job 0 awaits a cancelled future), between events, with
    # later jobs and events
    for jt in ((15, 25), (15, 35), (25, 30), (15, 15), (10, 25), (15, 25, 40), (25, 35, 45), (5, 15, 35)):
        for maxc in (1, 2):
            out.append((jt, maxc, ("up",) * len(jt), "c0", 1))
            out.append((jt, maxc, ("h10",) + ("up",) * (len(jt) - 1), "c0", 1))
    # jobs that PUSH EVENTS: job 0 pushes an event stamped (its own time + delta) to a second, otherwise empty, subscribed
    # source; the other jobs fall before / into / after the same gap between two primary events. (Job 0 before the last
    # event: what a job of the final drain creates is outside the property.)
    first = tuple(t for t in TIMES + SUBSEC if t < EVENTS[-1])
    for jt in itertools.product(first, TIMES + SUBSEC):
        for maxc in (1, 2):
            for delta in ("push0", "push0.3"):
                out.append((jt, maxc, ("up", "up"), None, delta))
    small = (5, 10, 25.2, 25.8, 30)
    for jt in itertools.product(tuple(t for t in small if t < EVENTS[-1]), small, small):
        out.append((jt, 2, ("up",) * 3, None, "push0.3"))
    # drain family: many jobs beyond the last event, every insertion order, default schedule only
    # (one work item = all insertion orders that begin with one given job: see drain_members)
    for n in BOUNDS[tier]["drain_jobs"]:
        for k in range(n):
            out.append((("drain-perm", n, k), 2, "up", None, 1))
            if n == 5:
                out.append((("drain-perm", n, k), 2, "h30", None, 1))
    for k in range(3):
        out.append((("drain-prod", 5, k), 2, "up", None, 1))
    return out


def drain_members(sc):
    """The scenarios a drain work item stands for."""
    (kind, n, k), maxc, m, raising, nsrc = sc
    if kind == "drain-perm":
        ts = DRAIN_TIMES[:n]
        rest = ts[:k] + ts[k + 1:]
        tuples = [(ts[k],) + p for p in itertools.permutations(rest)]
    else:
        vals = (35, 40, 45)
        tuples = [(vals[k],) + p for p in itertools.product(vals, repeat=n - 1)]
    return [(jt, maxc, (m,) * n, raising, nsrc) for jt in tuples]


def make_run(sc, states=None):
    jt, maxc, mode, raising, nsrc = sc

    def run_one(ch):
        d = bs.backtesting_dispatcher(max_concurrent=maxc)
        src = bs.FifoQueueEventSource(events=[bs.Event(T(t)) for t in EVENTS])
        trace = []
        gates = Gates(ch)

        def note():
            if states is not None:
                states.add(h64((tuple(trace), len(gates.pending))))

        def now():
            return secs(d.now())

        def _when(i):
            # with nsrc == 3 (one source, time-zone mix) job times are expressed in zones west / east of UTC
            return T(jt[i]).astimezone(TZS[i % len(TZS)]) if nsrc == 3 else T(jt[i])

        def sched(i):
            trace.append(("sched", i, now()))
            d.schedule(_when(i), job(i))

        async def h(e):
            t = secs(e.when)
            trace.append(("ev", t, now(), "a"))
            for i, m in enumerate(mode):
                if m == "h%d" % t:
                    sched(i)
            note()
            await gates.suspend("h")
            trace.append(("ev-end", t, "a"))

        runs = {}

        def job(i):
            async def j():
                trace.append(("job", i, jt[i], now()))
                runs[i] = runs.get(i, 0) + 1
                if i == 0 and dsrc is not None and runs[i] == 1:
                    pt = round(now() + push_delta, 6)
                    trace.append(("push", pt))
                    dsrc.push(bs.Event(T(pt)))
                if runs[i] >= RUN_CAP:
                    # the same job again and again: cut the execution here (the oracle reports the repeated runs)
                    trace.append(("run-cap", i))
                    d.stop()
                    return
                if i == 0:
                    for k, m in enumerate(mode):
                        if m == "j0":
                            sched(k)
                note()
                if raising == i:
                    trace.append(("job-end", i, "raises"))
                    raise ValueError("job fails")
                if raising == "c0" and i == 0:
                    # the job fails with CancelledError: it awaits a future that was cancelled elsewhere
                    trace.append(("job-end", i, "raises-cancelled"))
                    fut = asyncio.get_running_loop().create_future()
                    fut.cancel()
                    await fut
                await gates.suspend("j")
                trace.append(("job-end", i, "returns"))
            return j

        d.subscribe(src, h)
        dsrc = None
        push_delta = 0.0
        if isinstance(nsrc, str) and nsrc.startswith("push"):
            push_delta = float(nsrc[4:])
            dsrc = bs.FifoQueueEventSource()

            async def hd(e):
                trace.append(("ev", secs(e.when), now(), "d"))
                note()
                await gates.suspend("hd")
                trace.append(("ev-end", secs(e.when), "d"))
            d.subscribe(dsrc, hd)
        if nsrc == 2:
            async def hb(e):
                trace.append(("ev", secs(e.when), now(), "b"))
                note()
                await gates.suspend("hb")
                trace.append(("ev-end", secs(e.when), "b"))
            d.subscribe(bs.FifoQueueEventSource(events=[bs.Event(T(t)) for t in EVENTS_B]), hb)
        for i, m in enumerate(mode):
            if m == "up":
                trace.append(("sched", i, None))
                d.schedule(_when(i), job(i))

        def quiescent(loop):
            note()
            return gates.on_quiescent(loop)

        out, exc, loop = run_on_vloop(lambda loop: d.run(stop_signals=[]), on_quiescent=quiescent, max_steps=20000)
        if exc is not None:
            out = "raised:" + type(exc).__name__
        return trace, out, [str(c.get("message"))[:60] for c in loop.errors] + [w[1][:60] for w in loop.warnings]
    return run_one


def where(t):
    if t < EVENTS[0]:
        return "past"
    if t > EVENTS[-1]:
        return "beyond-last-event"
    return "equal-event" if t in EVENTS else "between-events"


def oracle(sc, trace, out, errs):
    """Returns a list of (clause, detail)."""
    jt, maxc, mode, raising, nsrc = sc
    bad = []
    if out != "returned":
        bad.append(("run-outcome", out))
    if errs:
        bad.append(("loop-error", errs[0]))
    ran = [x for x in trace if x[0] == "job"]
    covered = []
    for i, m in enumerate(mode):
        # (a job scheduled by job 0 while job 0 runs in the final drain is outside the property: job 0 runs there when it
        # lies beyond the last event or was itself scheduled by the handler of the last event)
        covered.append(m != "j0" or (jt[0] <= EVENTS[-1] and mode[0] != "h30"))
    for i, t in enumerate(jt):
        n = sum(1 for x in ran if x[1] == i)
        if covered[i] and n != 1:
            bad.append(("job-not-run" if n == 0 else "job-ran-twice", f"job{i}@{t} ({where(t)}, {mode[i]}) ran {n}x"))
        if not covered[i] and n > 1:
            bad.append(("job-ran-twice", f"job{i}@{t} ran {n}x"))
    if any(x[0] == "run-cap" for x in trace):
        # the harness cut the execution because one job was started RUN_CAP times: the counts above say it all, the rest of
        # the trace is that of an aborted run
        return bad
    for x in ran:
        if x[3] < x[2]:
            bad.append(("job-early", f"job{x[1]}@{x[2]} ran with clock {x[3]}"))
    sched_at = {}
    pending = set()
    for k, x in enumerate(trace):
        if x[0] == "sched":
            pending.add(x[1])
            sched_at[x[1]] = x[2]
        elif x[0] == "job":
            early = [p for p in pending if p != x[1] and jt[p] < x[2]]
            if early:
                bad.append(("job-order", f"job@{x[2]} started while job@{jt[early[0]]} was scheduled and pending"))
            pending.discard(x[1])
        elif x[0] == "ev":
            # (jobs scheduled while this very timestamp is being handled are exempt: events of one timestamp form one batch)
            # strictly earlier: a job whose time equals the event's time may run after that timestamp's events
            late = [p for p in pending if jt[p] < x[1] and (sched_at.get(p) is None or sched_at[p] < x[1])]
            if late:
                bad.append(("event-before-due-job", f"event@{x[1]} handled while job@{jt[late[0]]} pending"))
    for k, x in enumerate(trace):
        if x[0] == "job":
            limit = max(x[2], sched_at.get(x[1]) or 0)
            for y in trace[:k]:
                if y[0] == "ev" and y[1] > limit:
                    bad.append(("job-after-later-event", f"job@{x[2]} ran after event@{y[1]}"))
            for y in trace[k + 1:]:
                if y[0] == "ev" and y[1] < x[2]:
                    bad.append(("job-before-earlier-event", f"job@{x[2]} ran before event@{y[1]}"))
            # the END of things: the job has finished before an event with a later time starts; events with an earlier
            # time have finished before the job starts
            end = next((m for m in range(k + 1, len(trace)) if trace[m][0] == "job-end" and trace[m][1] == x[1]), None)
            if end is None:
                bad.append(("job-unfinished", f"job{x[1]}@{x[2]} was started but never ran to its end"))
            for m in range(k + 1, end if end is not None else len(trace)):
                y = trace[m]
                if y[0] == "ev" and y[1] > limit:
                    bad.append(("job-overlaps-later-event", f"event@{y[1]} started while job@{x[2]} was still running"))
            started = {(y[1], y[3]) for y in trace[:k] if y[0] == "ev" and y[1] < x[2]}
            finished = {(y[1], y[2]) for y in trace[:k] if y[0] == "ev-end"}
            for t, s in sorted(started - finished):
                bad.append(("job-overlaps-earlier-event", f"job@{x[2]} started while event@{t} was still being handled"))
    # events themselves: each exactly once, in order
    evs = [x[1] for x in trace if x[0] == "ev"]
    if evs != sorted(EVENTS + (EVENTS_B if nsrc == 2 else ()) + tuple(x[1] for x in trace if x[0] == "push")):
        bad.append(("events", f"events handled {evs}"))
    return bad


def signature(sc, clause, detail):
    jt, maxc, mode, raising, nsrc = sc
    feats = []
    if clause in ("job-not-run",):
        feats.append("beyond-last-event" if any(t > EVENTS[-1] for t in jt) else "within-events")
    return f"{PROPERTY}:{clause}" + ("".join(":" + f for f in feats))


def run_scenario(sc, tier):
    res = Result()
    if isinstance(sc[0][0], str):
        for member in drain_members(sc):
            _explore(member, 0, res)
    else:
        _explore(sc, BOUNDS[tier]["deviation_bound"], res)
    return res


def _explore(sc, bound, res):
    first = True
    for choices, tr, (trace, out, errs) in explore(make_run(sc, res.states), bound):
        res.executions += 1
        res.transitions += len(tr) + 1
        res.outcomes[out] += 1
        obs = (sc, tuple(trace), out)
        if any(x[0] == "job" for x in trace) and any(x[0] == "ev" for x in trace):
            res.nontrivial.add(h64(obs))
        bad = oracle(sc, trace, out, errs)
        if first or bad:
            # determinism: the same choices must give the same observation
            trace2, out2, errs2 = make_run(sc)(Chooser(choices))
            if (trace2, out2, errs2) != (trace, out, errs):
                raise RuntimeError(f"HARNESS-NONDETERMINISM scenario={sc} choices={choices}")
            res.validated += 1
        if first:
            res.samples.append(dict(scenario=repr(sc), choices=choices, trace=[list(x) for x in trace], outcome=out))
            first = False
        for clause, detail in bad:
            res.violation(signature(sc, clause, detail), f"{detail}; scenario={sc} choices={choices}",
                          dict(scenario=list(sc), choices=choices), size=100 * len(sc[0]) + sum(1 for c in choices if c))
    return res


def replay(rep):
    jt, maxc, mode, raising, nsrc = (list(rep["scenario"]) + [1])[:5]
    sc = (tuple(jt), maxc, tuple(mode), raising, nsrc)
    trace, out, errs = make_run(sc)(Chooser(rep["choices"]))
    print("scenario:", sc)
    for x in trace:
        print("  ", x)
    print("outcome:", out, errs)
    return [f"{c}: {d}" for c, d in oracle(sc, trace, out, errs)]

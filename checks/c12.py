"""C12 - backtesting dispatcher: global time order, exactly-once delivery, handler stages, clock (DESIGN.md 4, C12).

Real BacktestingDispatcher on the virtual loop; n sources with every non-decreasing timestamp sequence on {1,2,3} (ties
within and across sources), two handlers per source, optional catch-all handlers (front-running and trailing), duplicate
subscriptions, a handler that pushes events to a derived source (stamped now or later), a raising handler, a job
scheduled for the past from a handler; max_concurrent 1/2/50; every handler suspension pattern within the bound.
"""
import collections
import itertools

import basana as bs

from mc.chooser import Chooser, explore
from mc.framework import Result, h64
from worlds.dsp import Gates, T, run_on_vloop, secs

PROPERTY = "C12"
RULE = ("scenario = (timestamp sequence per source, max_concurrent, sniffers?, derived-push mode, raising handler?, "
        "duplicate subscriptions?, past-dated job?); per scenario every choice sequence (suspension pattern of each "
        "handler invocation: none / 1 yield / 2 yields / external gate; gate release order) within the deviation bound "
        "runs on the real dispatcher. Distinct = distinct (scenario, invocation trace); non-trivial = at least two "
        "handler invocations.")
ASSUMPTIONS = [
    "timestamps on {1, 1.5, 3}; <=2 sources x <=2 events (quick), <=3 sources / <=3 events (thorough); 2 handlers per source",
    "sources yield their events in non-decreasing time order (premise of the property); derived events carry a time >= now",
    "CPython FIFO ready-queue order is kept; only suspension patterns and external completion order are permuted",
]
BOUNDS = {"quick": dict(sources=2, events_per_source=2, deviation_bound=1),
          "thorough": dict(sources=3, events_per_source=3, deviation_bound=2, note="deviation bound 1 for patterns with >= 4 events")}
EXPLANATION = ("implementation-level model checking: every explored trace is an execution of the real dispatcher; "
               "traces_validated_against_impl counts executions re-run from their recorded choices with identical "
               "observations")


GRID = (1, 1.5, 3)  # two values share a UTC second: sub-second resolution matters


def _seqs(maxlen):
    out = []
    for n in range(0, maxlen + 1):
        out.extend(itertools.combinations_with_replacement(GRID, n))
    return out


def scenarios(tier, seed):
    out = []
    if tier == "quick":
        shapes = [st for st in itertools.product(_seqs(2), repeat=2) if any(st)]
        flagsets = [f for f in itertools.product((False, True), (0, 1, 2), (False, True), (False, True), (False, True))
                    if not (f[3] and (f[2] or f[4]))]  # duplicate subscriptions only without raiser / past job
        maxcs = (1, 2, 50)
    else:
        shapes = [st for st in itertools.product(_seqs(3), repeat=2) if any(st)]
        shapes += [st for st in itertools.product(_seqs(2), repeat=3) if all(st) and sum(len(x) for x in st) <= 4]
        flagsets = [f for f in itertools.product((False, True), (0, 1, 2), (False, True), (False, True), (False, True))
                    if not (f[3] and (f[2] or f[4]))]
        maxcs = (1, 2, 3, 50)
    # long sources (the event queue's own bookkeeping: a backlog of 70 / 130 / 200 events consumed without a pause)
    for n in (70, 130, 200):
        for maxc in (1, 50):
            for ties in (False, True):
                out.append(((tuple(float(1 + (k // 2 if ties else k)) for k in range(n)),), maxc, False, 0, False, False, False))
    for st in shapes:
        for maxc in maxcs:
            for sniff, derived, raiser, dup, pastjob in flagsets:
                if tier == "thorough" and sum(len(x) for x in st) >= 5 and (dup or raiser or pastjob or maxc == 3):
                    continue
                out.append((st, maxc, sniff, derived, raiser, dup, pastjob))
    return out


def make_run(sc, states=None):
    src_times, maxc, sniff, derived, raiser, dup, pastjob = sc

    def run_one(ch):
        d = bs.backtesting_dispatcher(max_concurrent=maxc)
        srcs = [bs.FifoQueueEventSource(events=[bs.Event(T(t)) for t in times]) for times in src_times]
        dsrc = bs.FifoQueueEventSource()
        trace = []
        clock = []
        gates = Gates(ch)
        counter = [0]
        pushed = []  # (derived event serial, time)

        def eid(e):
            if not hasattr(e, "_vid"):
                counter[0] += 1
                e._vid = counter[0]
            return e._vid

        def note():
            if states is not None:
                states.add(h64((tuple(trace), len(gates.pending))))

        def mk(hname, push_derived=0, raises=False, sched_past=False):
            async def h(e):
                trace.append(("start", hname, eid(e), secs(e.when), secs(d.now())))
                if push_derived:
                    ne = bs.Event(d.now() if push_derived == 1 else T(secs(d.now()) + 1))
                    pushed.append((eid(ne), secs(ne.when)))
                    dsrc.push(ne)
                if sched_past and secs(e.when) >= 1.5:
                    async def pj():
                        trace.append(("job", secs(d.now())))
                    d.schedule(T(secs(e.when) - 0.3), pj)
                note()
                await gates.suspend(hname)
                trace.append(("end", hname, eid(e), secs(d.now())))
                if raises:
                    raise ValueError("handler fails")
            h.__name__ = hname
            if dup:
                # an equal-but-not-identical callable on every access, like the bound method of a strategy object
                class _Strategy:
                    async def on_event(self, e):
                        return await h(e)
                holder = _Strategy()
                return lambda: holder.on_event
            return lambda: h

        for i, s in enumerate(srcs):
            for j in range(2):
                h = mk(f"h{i}{j}", push_derived=(derived if (i == 0 and j == 0) else 0),
                       raises=(raiser and i == 0 and j == 1), sched_past=(pastjob and i == len(srcs) - 1 and j == 0))
                d.subscribe(s, h())
                if dup:
                    d.subscribe(s, h())
        d.subscribe(dsrc, mk("hD")())
        if sniff:
            pre, post = mk("pre"), mk("post")
            d.subscribe_all(pre(), front_run=True)
            d.subscribe_all(post())
            if dup:
                d.subscribe_all(pre(), front_run=True)
                d.subscribe_all(post())

        def on_step(loop):
            if d.now_available:
                n = secs(d.now())
                if not clock or clock[-1] != n:
                    clock.append(n)

        def quiescent(loop):
            note()
            return gates.on_quiescent(loop)

        out, exc, loop = run_on_vloop(lambda loop: d.run(stop_signals=[]), on_quiescent=quiescent, on_step=on_step)
        if exc is not None:
            out = "raised:" + type(exc).__name__
        errs = [str(c.get("message"))[:60] for c in loop.errors] + [w[1][:60] for w in loop.warnings]
        return dict(out=out, trace=trace, clock=clock, pushed=pushed, errs=errs)
    return run_one


def oracle(sc, r):
    src_times, maxc, sniff, derived, raiser, dup, pastjob = sc
    bad = []
    if r["out"] != "returned":
        bad.append(("run-outcome", r["out"]))
    if r["errs"]:
        bad.append(("loop-error", r["errs"][0]))
    tr = r["trace"]
    starts = [x for x in tr if x[0] == "start"]
    cnt = collections.Counter((x[1], x[2]) for x in starts)
    dups = [k for k, v in cnt.items() if v != 1]
    if dups:
        bad.append(("delivered-twice", f"{dups[0]} delivered {cnt[dups[0]]}x"))
    per_handler = collections.Counter(x[1] for x in starts)
    n_derived = len(r["pushed"])
    expected_derived = len(src_times[0]) if derived else 0
    if n_derived != expected_derived:
        bad.append(("harness", f"derived pushes {n_derived} != {expected_derived}"))
    for i, times in enumerate(src_times):
        for j in range(2):
            if per_handler[f"h{i}{j}"] != len(times):
                bad.append(("missed-delivery", f"h{i}{j} got {per_handler[f'h{i}{j}']} of {len(times)} events"))
    if per_handler["hD"] != n_derived:
        bad.append(("missed-delivery", f"derived handler got {per_handler['hD']} of {n_derived} events"))
    if sniff:
        tot = sum(len(t) for t in src_times) + n_derived
        for s in ("pre", "post"):
            if per_handler[s] != tot:
                bad.append(("missed-delivery", f"{s}-sniffer got {per_handler[s]} of {tot} events"))
    ts = [x[3] for x in starts]
    if ts != sorted(ts):
        bad.append(("time-order", f"event times not globally non-decreasing: {ts}"))
    for x in starts:
        if x[3] != x[4]:
            bad.append(("clock-in-handler", f"handler {x[1]} of event@{x[3]} saw clock {x[4]}"))
    ev_time = {x[2]: x[3] for x in starts}
    for x in tr:
        if x[0] == "end" and x[3] != ev_time.get(x[2]):
            bad.append(("clock-in-handler", f"handler {x[1]} of event@{ev_time.get(x[2])} finished with clock {x[3]}"))
    if r["clock"] != sorted(r["clock"]):
        bad.append(("clock-backwards", f"clock sequence {r['clock']}"))
    byev = collections.defaultdict(list)
    for k, x in enumerate(tr):
        if x[0] in ("start", "end"):
            byev[x[2]].append((k, x))
    for ev, items in byev.items():
        st = {x[1]: k for k, x in items if x[0] == "start"}
        en = {x[1]: k for k, x in items if x[0] == "end"}
        hs = [h for h in st if h not in ("pre", "post")]
        if "pre" in st and any(st[h] < en.get("pre", 10 ** 9) for h in hs + (["post"] if "post" in st else [])):
            bad.append(("stage-order", "a handler started before the front-running sniffer finished"))
        if "post" in st and any(en.get(h, 10 ** 9) > st["post"] for h in hs):
            bad.append(("stage-order", "trailing sniffer started before the source's handlers finished"))
        hs_sorted = sorted(hs, key=lambda h: st[h])
        if hs_sorted != sorted(hs):
            bad.append(("subscription-order", f"handlers started in order {hs_sorted}"))
    return bad


def run_scenario(sc, tier):
    res = Result()
    bound = BOUNDS[tier]["deviation_bound"]
    if sum(len(x) for x in sc[0]) >= 50:
        bound = 0  # long sources: the default schedule only
    elif sum(len(x) for x in sc[0]) >= 4:
        bound = 1  # the larger timestamp patterns are explored at deviation bound 1 (stated in the evidence bounds)
    first = True
    for choices, tr, r in explore(make_run(sc, res.states), bound):
        res.executions += 1
        res.transitions += len(tr) + 1
        res.outcomes[r["out"]] += 1
        if sum(1 for x in r["trace"] if x[0] == "start") >= 2:
            res.nontrivial.add(h64((sc, tuple(r["trace"]))))
        bad = oracle(sc, r)
        if first or bad:
            r2 = make_run(sc)(Chooser(choices))
            if r2 != r:
                raise RuntimeError(f"HARNESS-NONDETERMINISM scenario={sc} choices={choices}")
            res.validated += 1
        if first:
            res.samples.append(dict(scenario=repr(sc), choices=choices, trace=[list(x) for x in r["trace"]]))
            first = False
        for clause, detail in bad:
            res.violation(f"{PROPERTY}:{clause}", f"{detail}; scenario={sc} choices={choices}",
                          dict(scenario=list(sc), choices=choices),
                          size=100 * sum(len(t) for t in sc[0]) + 10 * sum(map(bool, sc[2:])) + sum(1 for c in choices if c))
    return res


def replay(rep):
    s = rep["scenario"]
    sc = (tuple(tuple(t) for t in s[0]),) + tuple(s[1:])
    r = make_run(sc)(Chooser(rep["choices"]))
    print("scenario:", sc)
    for x in r["trace"]:
        print("  ", x)
    print("outcome:", r["out"], "clock:", r["clock"], r["errs"])
    return [f"{c}: {d}" for c, d in oracle(sc, r)]

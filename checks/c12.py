"""C12 - backtesting dispatcher: global time order, exactly-once delivery, handler stages, clock (DESIGN.md 4, C12).

Real BacktestingDispatcher on the virtual loop; n sources with every non-decreasing timestamp sequence on {1,1.5,3} (ties
within and across sources), two handlers per source, catch-all handlers (front-running and trailing: none / one kind
alone / one of each / two of each), duplicate subscriptions (adjacent and a-b-a, through bound methods of instances of ONE
class), a handler that pushes events to a derived source (stamped now or later), a raising handler (any position: first or
last handler of a source, a front-running or a trailing catch-all handler; a plain function, a functools.partial or a
callable instance), a job scheduled for the past from a handler; max_concurrent 1/2/50; every handler suspension pattern
within the bound.
"""
import collections
import functools
import itertools

import basana as bs

from mc.chooser import Chooser, explore
from mc.framework import Result, h64
from worlds.dsp import Gates, T, run_on_vloop, secs

PROPERTY = "C12"
RULE = ("scenario = (timestamp sequence per source, max_concurrent, catch-all handlers (0..2 front-running, 0..2 trailing), "
        "derived-push mode, raising handler (which one; function / functools.partial / callable instance), duplicate "
        "subscriptions (none / adjacent / a-b-a; handlers are then bound methods of several instances of one class), "
        "past-dated job?); per scenario every choice sequence (suspension pattern of each handler invocation: none / 1 "
        "yield / 2 yields / external gate; gate release order) within the deviation bound runs on the real dispatcher. "
        "Distinct = distinct (scenario, invocation trace); non-trivial = at least two handler invocations.")
ASSUMPTIONS = [
    "timestamps on {1, 1.5, 3}; <=2 sources x <=2 events (quick), <=3 sources / <=3 events (thorough); 2 handlers per source",
    "sources yield their events in non-decreasing time order (premise of the property); derived events carry a time >= now",
    "CPython FIFO ready-queue order is kept; only suspension patterns and external completion order are permuted",
    "the handler-variety families (raising handler position / kind, catch-all arrangements, a-b-a duplicates) run on 8 "
    "representative timestamp patterns, the base family on all patterns",
    "sources built from a list the caller keeps (one list for two sources; a list reused for the next source and changed "
    "afterwards): a source delivers the events its list held when the source was constructed",
    "the order in which catch-all handlers of one stage start is not part of the statement and is not checked",
    "events pushed to a derived source by a scheduled JOB (stamped now()) are covered for jobs whose time lies strictly "
    "between two event times (found a genuine defect, repaired by /repo 20c027b); events created during the final drain "
    "are outside the property",
]
BOUNDS = {"quick": dict(sources=2, events_per_source=2, deviation_bound=1),
          "thorough": dict(sources=3, events_per_source=3, deviation_bound=2, note="deviation bound 1 for patterns with >= 4 events")}
EXPLANATION = ("implementation-level model checking: every explored trace is an execution of the real dispatcher; "
               "traces_validated_against_impl counts executions re-run from their recorded choices with identical "
               "observations")

# Scenarios that report a genuine defect of the tree and stay disabled until /repo is repaired. Empty now:
# "job-pushes-derived-event" (notes/I1.md, notes/I1-defect-1.py) was repaired by /repo 20c027b and is enabled.
PENDING_DEFECTS = set()

GRID = (1, 1.5, 3)  # two values share a UTC second: sub-second resolution matters
# representative timestamp patterns for the handler-variety families
SHAPES_S = (((1,), ()), ((1, 1), ()), ((1, 1.5), ()), ((1, 3), ()), ((1,), (1,)), ((1, 1.5), (1,)), ((1, 3), (1.5,)),
            ((1, 1), (1, 3)))
KINDS = ("fn", "partial", "callable")


def _seqs(maxlen):
    out = []
    for n in range(0, maxlen + 1):
        out.extend(itertools.combinations_with_replacement(GRID, n))
    return out


def _opts(**kw):
    return tuple(sorted(kw.items()))


def scenarios(tier, seed):
    out = []
    if tier == "quick":
        shapes = [st for st in itertools.product(_seqs(2), repeat=2) if any(st)]
        flagsets = [f for f in itertools.product((False, True), (0, 1, 2), (False, True), (False, True), (False, True))
                    if not (f[3] and (f[2] or f[4]))]  # duplicate subscriptions only without raiser / past job
        maxcs = (1, 2, 50)
    else:
        shapes = [st for st in itertools.product(_seqs(3), repeat=2) if any(st)]
        shapes += [st for st in itertools.product(_seqs(2), repeat=3) if all(st) and sum(len(x) for x in st) <= 4]
        flagsets = [f for f in itertools.product((False, True), (0, 1, 2), (False, True), (False, True), (False, True))
                    if not (f[3] and (f[2] or f[4]))]
        maxcs = (1, 2, 3, 50)
    # long sources (the event queue's own bookkeeping: a backlog of 70 / 130 / 200 events consumed without a pause)
    for n in (70, 130, 200):
        for maxc in (1, 50):
            for ties in (False, True):
                out.append(((tuple(float(1 + (k // 2 if ties else k)) for k in range(n)),), maxc, False, 0, False, False, False))
    for st in shapes:
        for maxc in maxcs:
            for sniff, derived, raiser, dup, pastjob in flagsets:
                if tier == "thorough" and sum(len(x) for x in st) >= 5 and (dup or raiser or pastjob or maxc == 3):
                    continue
                out.append((st, maxc, sniff, derived, raiser, dup, pastjob))
    # handler variety: catch-all arrangements x which handler raises x what kind of callable it is
    seen = set(out)
    for st in SHAPES_S:
        for maxc in maxcs:
            for sn in ((0, 0), (1, 0), (0, 1), (1, 1), (2, 2)):
                targets = ["h00", "h01"] + (["pre0"] if sn[0] else []) + (["post0"] if sn[1] else [])
                raises = [None] + [(t, k) for t in targets for k in KINDS]
                for rz in raises:
                    for derived in (0, 1):
                        if rz is None and sn in ((0, 0), (1, 1)):
                            continue  # in the base family
                        if rz == ("h01", "fn") and sn in ((0, 0), (1, 1)):
                            continue  # in the base family
                        if rz and rz[1] != "fn" and derived:
                            continue  # the kind of callable only matters where the exception is caught
                        kw = dict(sn=sn)
                        if rz:
                            kw["raise"] = rz
                        out.append((st, maxc, bool(sn[0] or sn[1]), derived, bool(rz), False, False, _opts(**kw)))
            # non-adjacent duplicate subscriptions (a, b, a)
            for sn in ((0, 0), (1, 1), (2, 2)):
                for derived in (0, 1):
                    out.append((st, maxc, bool(sn[0]), derived, False, "aba", False, _opts(sn=sn)))
            # a scheduled job that pushes an event stamped now() to the derived source. The job's time lies strictly
            # between two event times, so that a LATER event exists (what is created during the final drain is outside
            # the property)
            if "job-pushes-derived-event" not in PENDING_DEFECTS:
                latest = max(t for times in st for t in times)
                for jt in (1.2, 2.0):
                    if jt < latest:
                        for sniff in (False, True):
                            out.append((st, maxc, sniff, 0, False, False, False, _opts(jobpush=jt)))
    # sources built from a list object the caller keeps: ONE list given to two sources; a list that is reused for the next
    # source and changed after the sources were built. A source delivers the events its list held at construction time.
    for x in _seqs(2):
        if x:
            for maxc in maxcs:
                for derived in (0, 1):
                    out.append(((x, x), maxc, False, derived, False, False, False, _opts(lists="shared")))
    for st in SHAPES_S:
        for maxc in maxcs:
            for sniff in (False, True):
                out.append((st, maxc, sniff, 0, False, False, False, _opts(lists="reuse")))
    assert len(set(out)) == len(out) and not (seen & set(out[len(seen):]))
    return out


class _Strategy:
    """ONE class for all handlers of the duplicate-subscription scenarios: every access to .on_event gives an equal but
    not identical bound method; the bound methods of two instances share __func__ and differ in __self__."""

    def __init__(self, fn):
        self._fn = fn

    async def on_event(self, e):
        return await self._fn(e)


class _Callable:
    """A handler that is a callable instance (no __qualname__ / __name__ of its own)."""

    def __init__(self, fn):
        self._fn = fn

    async def __call__(self, e):
        return await self._fn(e)


async def _with_extra(fn, e, limit=None):
    return await fn(e)


def parse(sc):
    src_times, maxc, sniff, derived, raiser, dup, pastjob = sc[:7]
    opts = dict(sc[7]) if len(sc) > 7 else {}
    npre, npost = opts.get("sn", (1, 1) if sniff else (0, 0))
    rtarget, rkind = opts.get("raise", ("h01", "fn") if raiser else (None, None))
    return src_times, maxc, (npre, npost), derived, (rtarget, rkind), dup, pastjob, opts.get("jobpush"), opts.get("lists")


def make_run(sc, states=None):
    src_times, maxc, (npre, npost), derived, (rtarget, rkind), dup, pastjob, jobpush, lists = parse(sc)

    def run_one(ch):
        d = bs.backtesting_dispatcher(max_concurrent=maxc)
        if lists == "shared":
            # the same list object (hence the same Event objects) for both sources
            kept = [bs.Event(T(t)) for t in src_times[0]]
            srcs = [bs.FifoQueueEventSource(events=kept) for _ in src_times]
        elif lists == "reuse":
            # the caller recycles its list for the next source and goes on using it afterwards
            kept = []
            srcs = []
            for times in src_times:
                kept.clear()
                kept.extend(bs.Event(T(t)) for t in times)
                srcs.append(bs.FifoQueueEventSource(events=kept))
            kept.clear()
            kept.append(bs.Event(T(3.5)))   # not an event of any source
        else:
            srcs = [bs.FifoQueueEventSource(events=[bs.Event(T(t)) for t in times]) for times in src_times]
        dsrc = bs.FifoQueueEventSource()
        trace = []
        clock = []
        gates = Gates(ch)
        counter = [0]
        pushed = []  # (derived event serial, time)

        def eid(e):
            if not hasattr(e, "_vid"):
                counter[0] += 1
                e._vid = counter[0]
            return e._vid

        def note():
            if states is not None:
                states.add(h64((tuple(trace), len(gates.pending))))

        def mk(hname, push_derived=0, sched_past=False):
            raises = hname == rtarget

            async def h(e):
                trace.append(("start", hname, eid(e), secs(e.when), secs(d.now())))
                if push_derived:
                    ne = bs.Event(d.now() if push_derived == 1 else T(secs(d.now()) + 1))
                    pushed.append((eid(ne), secs(ne.when)))
                    dsrc.push(ne)
                if sched_past and secs(e.when) >= 1.5:
                    async def pj():
                        trace.append(("job", secs(d.now())))
                    d.schedule(T(secs(e.when) - 0.3), pj)
                note()
                await gates.suspend(hname)
                trace.append(("end", hname, eid(e), secs(d.now())))
                if raises:
                    raise ValueError("handler fails")
            h.__name__ = hname
            if dup:
                # an equal-but-not-identical callable on every access, like the bound method of a strategy object; all
                # handlers are methods of instances of one class
                holder = _Strategy(h)
                return lambda: holder.on_event
            if raises and rkind == "partial":
                p = functools.partial(_with_extra, h, limit=10)
                return lambda: p
            if raises and rkind == "callable":
                c = _Callable(h)
                return lambda: c
            return lambda: h

        def subscribe_round(sub, getters):
            if dup is True:
                for g in getters:  # adjacent duplicates
                    sub(g())
                    sub(g())
            else:
                for g in getters:
                    sub(g())
                if dup == "aba":  # the second round comes after every first-round subscription, in reverse order
                    for g in reversed(getters):
                        sub(g())

        for i, s in enumerate(srcs):
            getters = [mk(f"h{i}{j}", push_derived=(derived if (i == 0 and j == 0) else 0),
                          sched_past=(pastjob and i == len(srcs) - 1 and j == 0)) for j in range(2)]
            subscribe_round(lambda h, s=s: d.subscribe(s, h), getters)
        subscribe_round(lambda h: d.subscribe(dsrc, h), [mk("hD")])
        subscribe_round(lambda h: d.subscribe_all(h, front_run=True), [mk(f"pre{k}") for k in range(npre)])
        subscribe_round(lambda h: d.subscribe_all(h), [mk(f"post{k}") for k in range(npost)])
        if jobpush is not None:
            async def pusher():
                trace.append(("job", secs(d.now())))
                ne = bs.Event(d.now())
                pushed.append((eid(ne), secs(ne.when)))
                dsrc.push(ne)
            d.schedule(T(jobpush), pusher)

        def on_step(loop):
            if d.now_available:
                n = secs(d.now())
                if not clock or clock[-1] != n:
                    clock.append(n)

        def quiescent(loop):
            note()
            return gates.on_quiescent(loop)

        out, exc, loop = run_on_vloop(lambda loop: d.run(stop_signals=[]), on_quiescent=quiescent, on_step=on_step)
        if exc is not None:
            out = "raised:" + type(exc).__name__
        errs = [str(c.get("message"))[:60] for c in loop.errors] + [w[1][:60] for w in loop.warnings]
        return dict(out=out, trace=trace, clock=clock, pushed=pushed, errs=errs)
    return run_one


def _stage(h):
    return "pre" if h.startswith("pre") else "post" if h.startswith("post") else "src"


def oracle(sc, r):
    src_times, maxc, (npre, npost), derived, (rtarget, rkind), dup, pastjob, jobpush, lists = parse(sc)
    bad = []
    if r["out"] != "returned":
        bad.append(("run-outcome", r["out"]))
    if r["errs"]:
        bad.append(("loop-error", r["errs"][0]))
    tr = r["trace"]
    starts = [x for x in tr if x[0] == "start"]
    cnt = collections.Counter((x[1], x[2]) for x in starts)
    dups = [k for k, v in cnt.items() if v != 1]
    if dups:
        bad.append(("delivered-twice", f"{dups[0]} delivered {cnt[dups[0]]}x"))
    per_handler = collections.Counter(x[1] for x in starts)
    n_derived = len(r["pushed"])
    expected_derived = (len(src_times[0]) if derived else 0) + (1 if jobpush is not None else 0)
    if n_derived != expected_derived:
        bad.append(("harness", f"derived pushes {n_derived} != {expected_derived}"))
    for i, times in enumerate(src_times):
        for j in range(2):
            if per_handler[f"h{i}{j}"] != len(times):
                bad.append(("missed-delivery", f"h{i}{j} got {per_handler[f'h{i}{j}']} of {len(times)} events"))
    if per_handler["hD"] != n_derived:
        bad.append(("missed-delivery", f"derived handler got {per_handler['hD']} of {n_derived} events"))
    tot = sum(len(t) for t in src_times) + n_derived
    for s in [f"pre{k}" for k in range(npre)] + [f"post{k}" for k in range(npost)]:
        if per_handler[s] != tot:
            bad.append(("missed-delivery", f"catch-all handler {s} got {per_handler[s]} of {tot} events"))
    ts = [x[3] for x in starts]
    if ts != sorted(ts):
        bad.append(("time-order", f"event times not globally non-decreasing: {ts}"))
    for x in starts:
        if x[3] != x[4]:
            bad.append(("clock-in-handler", f"handler {x[1]} of event@{x[3]} saw clock {x[4]}"))
    ev_time = {x[2]: x[3] for x in starts}
    ended = set()
    for x in tr:
        if x[0] == "end":
            ended.add((x[1], x[2]))
            if x[3] != ev_time.get(x[2]):
                bad.append(("clock-in-handler", f"handler {x[1]} of event@{ev_time.get(x[2])} finished with clock {x[3]}"))
    for x in starts:
        if (x[1], x[2]) not in ended:
            # the run ended (sources exhausted) although a handler it had started was still running: it was cancelled or
            # abandoned, i.e. the event was not really delivered to it
            bad.append(("handler-unfinished", f"handler {x[1]} of event@{x[3]} was started but never ran to its end"))
    if r["clock"] != sorted(r["clock"]):
        bad.append(("clock-backwards", f"clock sequence {r['clock']}"))
    byev = collections.defaultdict(list)
    for k, x in enumerate(tr):
        if x[0] in ("start", "end"):
            # (one Event object delivered through two sources - lists="shared" - is two deliveries: grouped per source)
            grp = (x[2], x[1][1]) if lists == "shared" and x[1][0] == "h" and x[1] != "hD" else x[2]
            byev[grp].append((k, x))
    inf = 10 ** 9
    for ev, items in byev.items():
        st = {x[1]: k for k, x in items if x[0] == "start"}
        en = {x[1]: k for k, x in items if x[0] == "end"}
        pres = [h for h in st if _stage(h) == "pre"]
        posts = [h for h in st if _stage(h) == "post"]
        hs = [h for h in st if _stage(h) == "src"]
        if pres and any(st[h] < en.get(p, inf) for p in pres for h in hs + posts):
            bad.append(("stage-order", "a handler started before the front-running catch-all handlers finished"))
        if posts and any(en.get(h, inf) > st[p] for p in posts for h in hs):
            bad.append(("stage-order", "a trailing catch-all handler started before the source's handlers finished"))
        hs_sorted = sorted(hs, key=lambda h: st[h])
        if hs_sorted != sorted(hs):
            bad.append(("subscription-order", f"handlers started in order {hs_sorted}"))
    return bad


def run_scenario(sc, tier):
    res = Result()
    bound = BOUNDS[tier]["deviation_bound"]
    if sum(len(x) for x in sc[0]) >= 50:
        bound = 0  # long sources: the default schedule only
    elif sum(len(x) for x in sc[0]) >= 4:
        bound = 1  # the larger timestamp patterns are explored at deviation bound 1 (stated in the evidence bounds)
    first = True
    for choices, tr, r in explore(make_run(sc, res.states), bound):
        res.executions += 1
        res.transitions += len(tr) + 1
        res.outcomes[r["out"]] += 1
        if sum(1 for x in r["trace"] if x[0] == "start") >= 2:
            res.nontrivial.add(h64((sc, tuple(r["trace"]))))
        bad = oracle(sc, r)
        if first or bad:
            r2 = make_run(sc)(Chooser(choices))
            if r2 != r:
                raise RuntimeError(f"HARNESS-NONDETERMINISM scenario={sc} choices={choices}")
            res.validated += 1
        if first:
            res.samples.append(dict(scenario=repr(sc), choices=choices, trace=[list(x) for x in r["trace"]]))
            first = False
        for clause, detail in bad:
            res.violation(f"{PROPERTY}:{clause}", f"{detail}; scenario={sc} choices={choices}",
                          dict(scenario=list(sc), choices=choices),
                          size=100 * sum(len(t) for t in sc[0]) + 10 * sum(map(bool, sc[2:])) + sum(1 for c in choices if c))
    return res


def _tuplify(x):
    return tuple(_tuplify(y) for y in x) if isinstance(x, (list, tuple)) else x


def replay(rep):
    s = rep["scenario"]
    sc = (tuple(tuple(t) for t in s[0]),) + tuple(s[1:7]) + ((_tuplify(s[7]),) if len(s) > 7 else ())
    r = make_run(sc)(Chooser(rep["choices"]))
    print("scenario:", sc)
    for x in r["trace"]:
        print("  ", x)
    print("outcome:", r["out"], "clock:", r["clock"], r["errs"])
    return [f"{c}: {d}" for c, d in oracle(sc, r)]

"""C19 - bars built from CSV rows and live trades are faithful (DESIGN.md section 4, C19).

CSV: every file of <= 2 (quick) / 3 (thorough) rows over a small row alphabet, in every row order, x 6 encodings (UTF-8/16/32
with byte-order mark, UTF-8 without) x sort on/off x 5 sources (Binance, Bitstamp with str / deprecated enum period, Yahoo
with/without adjustment), written to a scratch directory and read back through the real event source.
Bar: every 4-tuple on a 3-level grid either raises InvalidBar or satisfies low <= open, close <= high.
Trades -> bars: the real RealTimeTradesToBar.main() on the virtual loop with a virtual utc_now; every sequence of <= 5
(quick) / 6 (thorough) steps, each either a trade at one of 9 offsets of the current window (first / second microsecond,
middle, last millisecond, its tail, last microsecond, start / middle of the next window, previous window) or "let the window flush".
"""
import asyncio
import codecs
import collections
import datetime
import itertools
import os
import shutil
import tempfile
from decimal import Decimal as D

import basana as bs
from basana.core import bar as cbar
from basana.core import dt as bdt
from basana.external.binance import csv as bcsv
from basana.external.bitstamp import csv as scsv
from basana.external.bitstamp.csv import bars as scsv_bars
from basana.external.yahoo import bars as ybars

from mc.framework import Result, h64
from mc.vloop import VLoop

PROPERTY = "C19"
RULE = ("CSV: case = (source, encoding, sort flag, tuple of rows in file order); trades: case = (bar duration, flush delay, "
        "skip-first flag, sequence of steps); all cases up to the bounds are executed on the real sources. Distinct = "
        "distinct cases; non-trivial = at least one bar event was produced.")
ASSUMPTIONS = [
    "CSV files carry a byte-order mark for UTF-16/32 (without one the file is not self-describing: the API has no "
    "encoding parameter); rows use valid OHLC shapes",
    "trade timestamps at 8 offsets of a window incl. the last millisecond's tail; pushes are made well before and "
    "'flush' advances to well after window end + flush delay (the exact flush instant is not part of the property)",
    "in-order trade = timestamp >= every earlier accepted trade and its window not yet flushed when pushed",
]
BOUNDS = {"quick": dict(max_rows=2, trade_depth=5), "thorough": dict(max_rows=3, trade_depth=6)}
EXPLANATION = "bounded exhaustive enumeration of files / trade sequences against the real sources; every case is an implementation run"
P = bs.Pair("BTC", "USD")
UTC = datetime.timezone.utc
ENC = {"utf-8": ("utf-8", b""), "utf-8-sig": ("utf-8", codecs.BOM_UTF8),
       "utf-16-le+bom": ("utf-16-le", codecs.BOM_UTF16_LE), "utf-16-be+bom": ("utf-16-be", codecs.BOM_UTF16_BE),
       "utf-32-le+bom": ("utf-32-le", codecs.BOM_UTF32_LE), "utf-32-be+bom": ("utf-32-be", codecs.BOM_UTF32_BE)}
TS = ("2020-01-01 00:00:00", "2020-01-01 00:01:00", "2020-01-02 00:00:00")
OHLC = (("1", "3", "1", "2"), ("2.50", "2.50", "0.00000100", "0.00000100"), ("100", "100", "100", "100"),
        ("7", "9", "7", "8"), ("0.00000123", "0.00000124", "0.00000122", "0.00000123"))
VOLS = ("0", "1.5", "0.00000001")
SOURCES = ("binance-1d", "binance-1m", "bitstamp-1d", "bitstamp-enum-day", "yahoo", "yahoo-adjust")


def call(c):
    try:
        c.send(None)
    except StopIteration as e:
        return e.value
    raise RuntimeError("suspended")


def scenarios(tier, seed):
    out = [("bar-ctor",)]
    for src in SOURCES:
        for enc in ENC:
            for sort in (True, False):
                out.append(("csv", src, enc, sort))
    for dur in (1, 60):
        for fd in ((0, 0.5, 1.5) if dur == 1 else (0, 0.5)):  # 1.5: flush delay longer than the bar itself
            for sf in (False, True):
                for a0 in ACTS:
                    out.append(("trades", dur, fd, sf, a0))
    return out


# ---- CSV ------------------------------------------------------------------------------------------------------------
def row_alphabet():
    return [(ts,) + ohlc + (v,) for ts in TS for ohlc in OHLC for v in VOLS]


def make_source(kind, path, sort):
    if kind == "binance-1d":
        return bcsv.BarSource(P, path, "1d", sort=sort), datetime.timedelta(days=1)
    if kind == "binance-1m":
        return bcsv.BarSource(P, path, "1m", sort=sort), datetime.timedelta(minutes=1)
    if kind == "bitstamp-1d":
        return scsv.BarSource(P, path, "1d", sort=sort), datetime.timedelta(days=1)
    if kind == "bitstamp-enum-day":
        return scsv.BarSource(P, path, scsv_bars.BarPeriod.DAY, sort=sort), datetime.timedelta(days=1)
    if kind == "yahoo":
        return ybars.CSVBarSource(P, path, sort=sort, tzinfo=UTC), datetime.timedelta(hours=24)
    return ybars.CSVBarSource(P, path, adjust_ohlc=True, sort=sort, tzinfo=UTC), datetime.timedelta(hours=24)


def csv_text(kind, rows):
    if kind.startswith("yahoo"):
        lines = ["Date,Open,High,Low,Close,Volume,Adj Close"]
        for ts, o, h, lo, c, v in rows:
            adj = c if kind == "yahoo" else str(D(c) / 2)
            lines.append(",".join((ts[:10], o, h, lo, c, v, adj)))
    else:
        lines = ["datetime,open,high,low,close,volume"]
        for r in rows:
            lines.append(",".join(r))
    return "\n".join(lines) + "\n"


def csv_case(kind, encname, sort, rows, tmpdir):
    enc, bom = ENC[encname]
    path = os.path.join(tmpdir, "f.csv")
    with open(path, "wb") as f:
        f.write(bom + csv_text(kind, rows).encode(enc))
    bad = []
    try:
        src, period = make_source(kind, path, sort)
        call(src.initialize())
        evs = []
        while (e := src.pop()) is not None:
            evs.append(e)
        call(src.finalize())
    except Exception as x:  # noqa
        return [("csv-exception", f"{type(x).__name__}: {x}")], 0
    yahoo = kind.startswith("yahoo")
    fmt = "%Y-%m-%d" if yahoo else "%Y-%m-%d %H:%M:%S"

    def want_row(r):
        ts, o, h, lo, c, v = r
        when = datetime.datetime.strptime(ts[:10] if yahoo else ts, fmt).replace(tzinfo=UTC)
        vals = [D(o), D(h), D(lo), D(c)]
        if kind == "yahoo-adjust":
            f = (D(c) / 2) / D(c)
            vals = [D(o) * f, D(h) * f, D(lo) * f, D(c) / 2]
        return (when, when + period) + tuple(vals) + (D(v),)
    want = [want_row(r) for r in rows if yahoo or D(r[5]) != 0]
    got = [(e.bar.datetime, e.when, e.bar.open, e.bar.high, e.bar.low, e.bar.close, e.bar.volume) for e in evs]
    for g in got:
        if not (g[4] <= g[2] <= g[3] and g[4] <= g[5] <= g[3]):
            bad.append(("bar-invariant", f"bar {g[2:6]} violates low <= open, close <= high"))
        if g[0].tzinfo is None or g[0].utcoffset() != datetime.timedelta(0):
            bad.append(("csv-timezone", f"bar datetime {g[0]!r}"))
    if sort:
        if sorted(got, key=repr) != sorted(want, key=repr):
            bad.append(("csv-rows-vs-events", f"events {got} for rows {rows}"))
        whens = [g[1] for g in got]
        if whens != sorted(whens):
            bad.append(("csv-not-sorted", f"event times {whens}"))
    elif got != want:
        bad.append(("csv-rows-vs-events", f"events {got} for rows {rows}"))
    return bad, len(got)


def run_csv(sc, tier, res):
    _, kind, encname, sort = sc
    tmpdir = tempfile.mkdtemp(prefix="c19csv", dir="/dev/shm" if os.path.isdir("/dev/shm") else None)
    try:
        alpha = row_alphabet()
        maxrows = BOUNDS[tier]["max_rows"]
        small = [r for r in alpha if r[1:5] in (OHLC[0], OHLC[1]) and r[5] in ("0", "1.5")]
        for k in range(0, maxrows + 1):
            pool = alpha if k <= 2 else small
            for rows in itertools.product(pool, repeat=k):
                bad, n = csv_case(kind, encname, sort, rows, tmpdir)
                res.executions += 1
                res.transitions += k + 1
                res.validated += 1
                key = h64((sc, rows))
                res.states.add(key)
                if n:
                    res.nontrivial.add(key)
                res.outcomes[f"csv:{min(n, 2)} events"] += 1
                case = dict(kind="csv", source=kind, encoding=encname, sort=sort, rows=[list(r) for r in rows])
                if not res.samples and n >= 2:
                    res.samples.append(case)
                for clause, detail in bad:
                    res.violation(f"{PROPERTY}:{clause}:{kind.split('-')[0]}", f"{detail}; {case}", case, size=k)
    finally:
        shutil.rmtree(tmpdir, ignore_errors=True)


def run_bar_ctor(res):
    g = [D(1), D(2), D(3)]
    for o, h, lo, c in itertools.product(g, repeat=4):
        res.executions += 1
        res.transitions += 1
        res.states.add(h64(("bar", o, h, lo, c)))
        valid = lo <= o <= h and lo <= c <= h
        try:
            b = cbar.Bar(datetime.datetime(2020, 1, 1, tzinfo=UTC), P, o, h, lo, c, D(1))
            ok = b.low <= b.open <= b.high and b.low <= b.close <= b.high
            res.nontrivial.add(h64(("bar", o, h, lo, c)))
            res.outcomes["bar-accepted"] += 1
            if not ok:
                res.violation(f"{PROPERTY}:bar-invariant:ctor", f"Bar accepted O={o} H={h} L={lo} C={c}",
                              dict(kind="bar-ctor", ohlc=[str(o), str(h), str(lo), str(c)]), 1)
        except cbar.InvalidBar:
            res.outcomes["bar-rejected"] += 1
            if valid:
                res.violation(f"{PROPERTY}:bar-rejected-valid:ctor", f"Bar rejected valid O={o} H={h} L={lo} C={c}",
                              dict(kind="bar-ctor", ohlc=[str(o), str(h), str(lo), str(c)]), 1)
    res.samples.append(dict(kind="bar-ctor", grid=[1, 2, 3]))


# ---- trades -> bars ---------------------------------------------------------------------------------------------------
EPOCH = datetime.datetime(2020, 1, 1, 0, 0, 0, tzinfo=UTC)
US = datetime.timedelta(microseconds=1)
ACTS = ("b", "b1", "mid", "e_ms", "tail", "e_us", "next", "next_mid", "prev", "FLUSH")
START_OFF = 0.25


def offsets(dur):
    n = dur * 1_000_000
    return {"b": 0, "b1": 1, "mid": n // 2, "e_ms": n - 1000, "tail": n - 999, "e_us": n - 1, "next": n, "next_mid": n + n // 2, "prev": -1}


def run_trades(dur, flush_delay, skip_first, actions):
    loop = VLoop()
    loop._vtime = START_OFF  # start in the middle of a window
    saved = bdt.utc_now
    bdt.utc_now = lambda: EPOCH + datetime.timedelta(seconds=loop.time())
    src = cbar.RealTimeTradesToBar(P, dur, skip_first_bar=skip_first, flush_delay=flush_delay)
    errors = []
    src.on_error = lambda e: errors.append(str(getattr(e, "message", e))[:40])
    pushed = []
    off = offsets(dur)
    holder = {}

    async def driver():
        price = 0
        for a in actions:
            now = loop.time()
            w = int(now // dur)
            if a == "FLUSH":
                t_flush = (w + 1) * dur + flush_delay + 0.005  # well after the flush, whatever the window-end constant
                if t_flush <= now + 0.006:
                    t_flush += dur
                await asyncio.sleep(t_flush - now)
            else:
                price += 1
                ts = EPOCH + datetime.timedelta(seconds=w * dur) + off[a] * US
                src.push_trade(ts, D(price), D(1))
                pushed.append((ts, D(price), now))
                await asyncio.sleep(0.01)
        await asyncio.sleep(2 * dur + flush_delay + 0.01)
        holder["mt"].cancel()

    async def main():
        holder["mt"] = asyncio.ensure_future(src.main())
        await driver()
        try:
            await holder["mt"]
        except asyncio.CancelledError:
            pass
    out = "ok"
    try:
        t = loop.run(main(), horizon=100000)
        if t.exception() is not None:
            out = "raised:" + type(t.exception()).__name__
    except Exception as x:  # noqa
        out = type(x).__name__
    finally:
        loop.shutdown()
        bdt.utc_now = saved
    bars = []
    while (e := src.pop()) is not None:
        bars.append(e)
    return pushed, bars, errors, out


def trades_oracle(dur, flush_delay, skip_first, pushed, bars, out):
    bad = []
    if out != "ok":
        bad.append(("trades-run", out))
    accepted = []
    last = None
    window = datetime.timedelta(seconds=dur)

    def flush_time(k):
        return (k + 1) * dur + flush_delay - 0.002  # pushes before this are certainly before the flush of window k
    for ts, price, at in pushed:
        k = int((ts - EPOCH) / window) if ts >= EPOCH else -1
        inorder = (last is None or ts >= last) and k >= 0 and at < flush_time(k)
        if last is None or ts >= last:
            last = ts
        if inorder:
            accepted.append((k, ts, price))
    first_window = int(START_OFF // dur)
    ref = collections.OrderedDict()
    for k, ts, price in accepted:
        if skip_first and k == first_window:
            continue
        ref.setdefault(k, []).append(price)
    got = {}
    for e in bars:
        k = int((e.bar.datetime - EPOCH) / window)
        if k in got:
            bad.append(("two-bars-one-window", f"window {k}"))
        got[k] = e
        if e.bar.datetime != EPOCH + k * window:
            bad.append(("bar-begin", f"bar of window {k} begins at {e.bar.datetime}"))
        end = EPOCH + (k + 1) * window
        if not (end - datetime.timedelta(milliseconds=1) <= e.when <= end):
            bad.append(("bar-stamp", f"bar of window {k} stamped {e.when}, window ends {end}"))
    for k, prices in ref.items():
        if k not in got:
            bad.append(("trade-lost", f"in-order trades of window {k} are in no bar: prices {prices}"))
            continue
        b = got[k].bar
        if (b.open, b.high, b.low, b.close, b.volume) != (prices[0], max(prices), min(prices), prices[-1], D(len(prices))):
            bad.append(("bar-values", f"window {k}: bar O/H/L/C/V {(b.open, b.high, b.low, b.close, b.volume)} for trades {prices}"))
    for k in got:
        if k not in ref:
            bad.append(("bar-without-trades", f"bar for window {k} although no in-order trade belongs to it"))
    whens = [e.when for e in bars]
    if whens != sorted(whens):
        bad.append(("bars-out-of-order", f"{whens}"))
    return bad


def run_trades_scenarios(sc, tier, res):
    _, dur, fd, sf, a0 = sc
    depth = BOUNDS[tier]["trade_depth"]
    if tier == "quick" and (dur != 1 or fd == 0):
        depth -= 1  # the full depth for 1-second bars with a flush delay; one step less for the other combinations
    for n in range(1, depth + 1):
        for tail in itertools.product(ACTS, repeat=n - 1):
            acts = (a0,) + tail
            pushed, bars, errors, out = run_trades(dur, fd, sf, acts)
            res.executions += 1
            res.transitions += n
            res.validated += 1
            key = h64((sc, acts))
            res.states.add(key)
            if bars:
                res.nontrivial.add(key)
            res.outcomes[f"trades:{min(len(bars), 2)} bars"] += 1
            case = dict(kind="trades", duration=dur, flush_delay=fd, skip_first_bar=sf, steps=list(acts))
            if not res.samples and len(bars) >= 2:
                res.samples.append(case)
            for clause, detail in trades_oracle(dur, fd, sf, pushed, bars, out):
                res.violation(f"{PROPERTY}:{clause}:trades", f"{detail}; {case}", case, size=n)


def run_scenario(sc, tier):
    res = Result()
    if sc[0] == "csv":
        run_csv(sc, tier, res)
    elif sc[0] == "bar-ctor":
        run_bar_ctor(res)
    else:
        run_trades_scenarios(sc, tier, res)
    return res


def replay(rep):
    print("case:", rep)
    if rep["kind"] == "csv":
        tmpdir = tempfile.mkdtemp(prefix="c19csv")
        try:
            bad, _ = csv_case(rep["source"], rep["encoding"], rep["sort"], [tuple(r) for r in rep["rows"]], tmpdir)
        finally:
            shutil.rmtree(tmpdir, ignore_errors=True)
        return [f"{c}: {d}" for c, d in bad]
    if rep["kind"] == "trades":
        pushed, bars, errors, out = run_trades(rep["duration"], rep["flush_delay"], rep["skip_first_bar"], tuple(rep["steps"]))
        for p in pushed:
            print("  pushed", p)
        for e in bars:
            print("  bar", e.when, e.bar.datetime, e.bar.open, e.bar.high, e.bar.low, e.bar.close, e.bar.volume)
        return [f"{c}: {d}" for c, d in trades_oracle(rep["duration"], rep["flush_delay"], rep["skip_first_bar"], pushed, bars, out)]
    res = Result()
    run_bar_ctor(res)
    return [v["message"] for v in res.violations]

"""C19 - bars built from CSV rows and live trades are faithful (DESIGN.md section 4, C19).

CSV: every file of <= 2 (quick) / 3 (thorough) rows over a small row alphabet, in every row order, x 6 encodings (UTF-8/16/32
with byte-order mark, UTF-8 without) x sort on/off x 6 sources (Binance 1d / 1m, Bitstamp with str / deprecated enum period,
Yahoo with/without adjustment), written to a scratch directory and read back through the real event source. Besides:
csv-tz (the six sources with a tzinfo west / east of UTC, the eastern one with a fractional offset), csv-periods (every period
string of the documented Binance / Bitstamp tables, the deprecated enum, three Yahoo timedeltas, x three time zones),
csv-zero (zero volume written as 0, 0.0, 0.00, 0.00000000 next to non-zero volumes).
Bar: every 4-tuple on a 3-level grid either raises InvalidBar or satisfies low <= open, close <= high.
Trades -> bars: the real aggregator on the virtual loop with a virtual utc_now, reached three ways: (core)
basana.core.bar.RealTimeTradesToBar.push_trade, (bitstamp) the subclass of basana.external.bitstamp.exchange fed through
on_trade_event with TradeEvents whose `when` is the reception time, not the trade's own time, (exchange)
Exchange.subscribe_to_bar_events end to end (fake websocket, real realtime dispatcher). Timing family: every sequence of <= 5
(quick) / 6 (thorough) steps, each either a trade at one of 9 offsets of the current window (first / second microsecond,
middle, last millisecond, its tail, last microsecond, start / middle of the next window, previous window) or "let the window
flush"; the k-th trade has price (2, 3, 1)[k mod 3] and amount 2^k / 8 (every set of trades has its own sum). Value family:
every sequence of <= 4 / 5 steps over 3 positions x EVERY price in {1, 2, 3}, or flush. Bar durations 1, 60 and 7 (13) seconds;
7 and 13 do not divide the start of the run.
"""
import asyncio
import codecs
import collections
import datetime
import itertools
import json
import os
import shutil
import tempfile
from decimal import Decimal as D

import basana as bs
from basana.core import bar as cbar
from basana.core import dt as bdt
from basana.external.binance import csv as bcsv
from basana.external.bitstamp import csv as scsv
from basana.external.bitstamp.csv import bars as scsv_bars
from basana.external.yahoo import bars as ybars

from mc.framework import Result, h64
from mc.vloop import VLoop

PROPERTY = "C19"
RULE = ("CSV: case = (source, period, time zone, encoding, sort flag, tuple of rows in file order); trades: case = (driver, bar "
        "duration, flush delay, skip-first flag, sequence of steps with their prices); all cases up to the bounds are executed "
        "on the real sources. Distinct = distinct cases; non-trivial = at least one bar event was produced.")
ASSUMPTIONS = [
    "CSV files carry a byte-order mark for UTF-16/32 (without one the file is not self-describing: the API has no "
    "encoding parameter); rows use valid OHLC shapes",
    "a row's date / time is a wall-clock reading in the source's tzinfo (fixed offsets -3 h, +5:30 h, UTC); events are "
    "compared as instants, whatever tzinfo they carry; period strings as documented; for Binance's '1M' (the statement does not say how long a month is) "
    "only 28 days <= stamp - start <= 31 days is demanded",
    "trade timestamps at 9 offsets of a window incl. the last millisecond's tail; pushes are made well before and "
    "'flush' advances to well after window end + flush delay (the exact flush instant is not part of the property); "
    "a bar event must not become available earlier than 1 ms before the end of its window (the stamp tolerance)",
    "in-order trade = timestamp >= every earlier accepted trade, its window not yet flushed when pushed and not older than "
    "the window in which the aggregator was started; windows are counted from the Unix epoch",
    "end-to-end driver: fake aiohttp session (worlds/ws.py), virtual time module for basana.core.websockets",
]
BOUNDS = {"quick": dict(max_rows=2, trade_depth=5, value_depth=4, exchange_depth=3),
          "thorough": dict(max_rows=3, trade_depth=6, value_depth=5, exchange_depth=4)}
EXPLANATION = "bounded exhaustive enumeration of files / trade sequences against the real sources; every case is an implementation run"
P = bs.Pair("BTC", "USD")
UTC = datetime.timezone.utc
ENC = {"utf-8": ("utf-8", b""), "utf-8-sig": ("utf-8", codecs.BOM_UTF8),
       "utf-16-le+bom": ("utf-16-le", codecs.BOM_UTF16_LE), "utf-16-be+bom": ("utf-16-be", codecs.BOM_UTF16_BE),
       "utf-32-le+bom": ("utf-32-le", codecs.BOM_UTF32_LE), "utf-32-be+bom": ("utf-32-be", codecs.BOM_UTF32_BE)}
TS = ("2020-01-01 00:00:00", "2020-01-01 00:01:00", "2020-01-02 00:00:00")
OHLC = (("1", "3", "1", "2"), ("2.50", "2.50", "0.00000100", "0.00000100"), ("100", "100", "100", "100"),
        ("7", "9", "7", "8"), ("0.00000123", "0.00000124", "0.00000122", "0.00000123"))
VOLS = ("0", "1.5", "0.00000001")
SOURCES = ("binance-1d", "binance-1m", "bitstamp-1d", "bitstamp-enum-day", "yahoo", "yahoo-adjust")


def call(c):
    try:
        c.send(None)
    except StopIteration as e:
        return e.value
    raise RuntimeError("suspended")


def scenarios(tier, seed):
    out = [("bar-ctor",)]
    for src in SOURCES:
        for enc in ENC:
            for sort in (True, False):
                out.append(("csv", src, enc, sort))
    for src in SOURCES:
        for tzname in ("utc-3", "utc+5:30"):
            out.append(("csv-tz", src, tzname))
        out.append(("csv-zero", src))
    for fam in ("binance", "bitstamp", "bitstamp-enum", "yahoo", "yahoo-adjust"):
        out.append(("csv-periods", fam))
    for dur in (1, 60, 7) + ((13,) if tier == "thorough" else ()):  # 7, 13: windows not aligned with the start of the run
        for fd in ((0, 0.5, 1.5) if dur == 1 else (0, 0.5)):  # 1.5: flush delay longer than the bar itself
            for sf in (False, True):
                for a0 in ACTS:
                    out.append(("trades", "core", dur, fd, sf, a0))
    for fd in (0, 0.5):
        for sf in (False, True):
            for a0 in ACTS:
                out.append(("trades", "bitstamp", 1, fd, sf, a0))
                out.append(("trades", "exchange", 1, fd, sf, a0))
    for via in ("core", "bitstamp"):
        for dur, fd in ((1, 0.5), (7, 0)):
            for a0 in VAL_ACTS:
                out.append(("values", via, dur, fd, False, a0))
    return out


# ---- CSV ------------------------------------------------------------------------------------------------------------
def row_alphabet():
    return [(ts,) + ohlc + (v,) for ts in TS for ohlc in OHLC for v in VOLS]


# period strings of the two documented tables (written out here, independent of the implementation's tables); "1M" has no
# entry: the statement does not say how long a month is, only a 28..31 day range is demanded (csv_case)
PERIOD_SECONDS = {"1s": 1, "1m": 60, "3m": 180, "5m": 300, "15m": 900, "30m": 1800, "1h": 3600, "2h": 7200, "4h": 14400,
                  "6h": 21600, "8h": 28800, "12h": 43200, "1d": 86400, "3d": 259200, "1w": 604800,
                  "min": 60, "hour": 3600, "day": 86400, "MINUTE": 60, "HOUR": 3600, "DAY": 86400}
BINANCE_PERIODS = ("1s", "1m", "3m", "5m", "15m", "30m", "1h", "2h", "4h", "6h", "8h", "12h", "1d", "3d", "1w")
BITSTAMP_PERIODS = ("min", "hour", "day", "1m", "3m", "5m", "15m", "30m", "1h", "2h", "4h", "6h", "12h", "1d", "3d")
BITSTAMP_ENUM_PERIODS = ("MINUTE", "HOUR", "DAY")
YAHOO_TIMEDELTAS = (None, 23400, 604800)  # default (24 h), a 6.5 h session, a week
TZS = {"utc": UTC, "utc-3": datetime.timezone(datetime.timedelta(hours=-3)),
       "utc+5:30": datetime.timezone(datetime.timedelta(hours=5, minutes=30))}


def spec_of(kind, tzname="utc"):
    """kind: one of SOURCES or 'family:period' -> (family, period / yahoo timedelta in seconds, time zone name)."""
    if ":" in kind:
        fam, per = kind.split(":")
        if fam.startswith("yahoo"):
            per = None if per == "None" else int(per)
        return (fam, per, tzname)
    return {"binance-1d": ("binance", "1d", tzname), "binance-1m": ("binance", "1m", tzname),
            "bitstamp-1d": ("bitstamp", "1d", tzname), "bitstamp-enum-day": ("bitstamp-enum", "DAY", tzname),
            "yahoo": ("yahoo", None, tzname), "yahoo-adjust": ("yahoo-adjust", None, tzname)}[kind]


def make_source(spec, path, sort):
    fam, per, tzname = spec
    # the default time zone of the Binance / Bitstamp sources is UTC: "utc" leaves the argument out
    kw = {} if tzname == "utc" else {"tzinfo": TZS[tzname]}
    if fam == "binance":
        # "1M": no exact expectation (period None), see csv_case
        return (bcsv.BarSource(P, path, per, sort=sort, **kw),
                None if per == "1M" else datetime.timedelta(seconds=PERIOD_SECONDS[per]))
    if fam == "bitstamp":
        return scsv.BarSource(P, path, per, sort=sort, **kw), datetime.timedelta(seconds=PERIOD_SECONDS[per])
    if fam == "bitstamp-enum":
        return (scsv.BarSource(P, path, getattr(scsv_bars.BarPeriod, per), sort=sort, **kw),
                datetime.timedelta(seconds=PERIOD_SECONDS[per]))
    kw = {"tzinfo": TZS[tzname]}  # Yahoo's default is the machine's local zone
    if per is not None:
        kw["timedelta"] = datetime.timedelta(seconds=per)
    if fam == "yahoo-adjust":
        kw["adjust_ohlc"] = True
    return ybars.CSVBarSource(P, path, sort=sort, **kw), datetime.timedelta(seconds=86400 if per is None else per)


def csv_text(fam, rows):
    if fam.startswith("yahoo"):
        lines = ["Date,Open,High,Low,Close,Volume,Adj Close"]
        for ts, o, h, lo, c, v in rows:
            adj = c if fam == "yahoo" else str(D(c) / 2)
            lines.append(",".join((ts[:10], o, h, lo, c, v, adj)))
    else:
        lines = ["datetime,open,high,low,close,volume"]
        for r in rows:
            lines.append(",".join(r))
    return "\n".join(lines) + "\n"


def utc_instant(x):
    return x.astimezone(UTC) if x.tzinfo is not None else x


def csv_case(kind, encname, sort, rows, tmpdir, tzname="utc"):
    spec = spec_of(kind, tzname)
    fam = spec[0]
    enc, bom = ENC[encname]
    path = os.path.join(tmpdir, "f.csv")
    with open(path, "wb") as f:
        f.write(bom + csv_text(fam, rows).encode(enc))
    bad = []
    try:
        src, period = make_source(spec, path, sort)
        call(src.initialize())
        evs = []
        while (e := src.pop()) is not None:
            evs.append(e)
        call(src.finalize())
    except Exception as x:  # noqa
        return [("csv-exception", f"{type(x).__name__}: {x}")], 0
    yahoo = fam.startswith("yahoo")
    fmt = "%Y-%m-%d" if yahoo else "%Y-%m-%d %H:%M:%S"
    tz = TZS[tzname]

    def want_row(r):
        ts, o, h, lo, c, v = r
        # the row's date / time is a wall-clock reading in the source's time zone; compared as instants
        when = datetime.datetime.strptime(ts[:10] if yahoo else ts, fmt).replace(tzinfo=tz).astimezone(UTC)
        vals = [D(o), D(h), D(lo), D(c)]
        if fam == "yahoo-adjust":
            f = (D(c) / 2) / D(c)
            vals = [D(o) * f, D(h) * f, D(lo) * f, D(c) / 2]
        return (when, when + (period or datetime.timedelta(0))) + tuple(vals) + (D(v),)
    want = [want_row(r) for r in rows if yahoo or D(r[5]) != 0]
    got = [(utc_instant(e.bar.datetime), utc_instant(e.when), e.bar.open, e.bar.high, e.bar.low, e.bar.close, e.bar.volume)
           for e in evs]
    if period is None:
        # a monthly bar ("1M"): the statement does not say how long a month is; under any reading the event is stamped at
        # least 28 and at most 31 days after the bar's start. Checked here, then the stamp is taken out of the comparison.
        for g in got:
            if g[0].tzinfo is not None and g[1].tzinfo is not None and \
                    not datetime.timedelta(days=28) <= g[1] - g[0] <= datetime.timedelta(days=31):
                bad.append(("csv-month-period", f"monthly bar starting {g[0]} stamped {g[1]} ({g[1] - g[0]} later; a month is 28..31 days)"))
                break
        got = [(g[0], g[0]) + g[2:] for g in got]
    for g in got:
        if not (g[4] <= g[2] <= g[3] and g[4] <= g[5] <= g[3]):
            bad.append(("bar-invariant", f"bar {g[2:6]} violates low <= open, close <= high"))
        if g[0].tzinfo is None or g[1].tzinfo is None:
            bad.append(("csv-timezone", f"bar datetime {g[0]!r} / event time {g[1]!r} without time zone"))
            return bad, len(got)
    if sort:
        if sorted(got, key=repr) != sorted(want, key=repr):
            bad.append(("csv-rows-vs-events", f"events {got} for rows {rows} (time zone {tzname}, period {period})"))
        whens = [g[1] for g in got]
        if whens != sorted(whens):
            bad.append(("csv-not-sorted", f"event times {whens}"))
    elif got != want:
        bad.append(("csv-rows-vs-events", f"events {got} for rows {rows} (time zone {tzname}, period {period})"))
    return bad, len(got)


def run_csv(sc, tier, res):
    _, kind, encname, sort = sc
    tmpdir = tempfile.mkdtemp(prefix="c19csv", dir="/dev/shm" if os.path.isdir("/dev/shm") else None)
    try:
        alpha = row_alphabet()
        maxrows = BOUNDS[tier]["max_rows"]
        small = [r for r in alpha if r[1:5] in (OHLC[0], OHLC[1]) and r[5] in ("0", "1.5")]
        for k in range(0, maxrows + 1):
            pool = alpha if k <= 2 else small
            for rows in itertools.product(pool, repeat=k):
                bad, n = csv_case(kind, encname, sort, rows, tmpdir)
                res.executions += 1
                res.transitions += k + 1
                res.validated += 1
                key = h64((sc, rows))
                res.states.add(key)
                if n:
                    res.nontrivial.add(key)
                res.outcomes[f"csv:{min(n, 2)} events"] += 1
                case = dict(kind="csv", source=kind, encoding=encname, sort=sort, rows=[list(r) for r in rows])
                if not res.samples and n >= 2:
                    res.samples.append(case)
                for clause, detail in bad:
                    res.violation(f"{PROPERTY}:{clause}:{kind.split('-')[0]}", f"{detail}; {case}", case, size=k)
    finally:
        shutil.rmtree(tmpdir, ignore_errors=True)


ZERO_VOLS = ("0", "0.0", "0.00", "0.00000000", "1.5", "0.00000001")


def run_csv_extra(sc, tier, res):
    """Constructor arguments that decide the bar's start and its period, and the ways of writing a zero volume:
      csv-tz       the six standard sources x a time zone west / east of UTC (fractional offset) x {utf-8, utf-16} x sort x every
                   file of <= 2 rows over 12 rows;
      csv-periods  every period string of the documented tables (Binance, Bitstamp, the deprecated Bitstamp enum) and three
                   Yahoo timedeltas x three time zones x sort x every file of <= 1 row (+ all 2-row files for the first and
                   last period) over 6 rows;
      csv-zero     the six standard sources x sort x every file of <= 2 rows over 3 timestamps x 6 spellings of the volume
                   (0, 0.0, 0.00, 0.00000000 and two non-zero ones)."""
    tmpdir = tempfile.mkdtemp(prefix="c19csv", dir="/dev/shm" if os.path.isdir("/dev/shm") else None)
    try:
        cases = []  # (kind, tzname, encname, sort, rows)
        small = [(ts,) + ohlc + (v,) for ts in TS for ohlc in (OHLC[0], OHLC[1]) for v in ("0", "1.5")]
        if sc[0] == "csv-tz":
            _, kind, tzname = sc
            for encname in ("utf-8", "utf-16-le+bom"):
                for sort in (True, False):
                    for k in range(0, 3):
                        for rows in itertools.product(small, repeat=k):
                            cases.append((kind, tzname, encname, sort, rows))
        elif sc[0] == "csv-periods":
            _, fam = sc
            periods = {"binance": BINANCE_PERIODS + ("1M",), "bitstamp": BITSTAMP_PERIODS, "bitstamp-enum": BITSTAMP_ENUM_PERIODS,
                       "yahoo": YAHOO_TIMEDELTAS, "yahoo-adjust": YAHOO_TIMEDELTAS}[fam]
            tiny = [r for r in small if r[1:5] == OHLC[0]]
            for n, per in enumerate(periods):
                for tzname in TZS:
                    for sort in (True, False):
                        for k in range(0, 3 if n in (0, len(periods) - 1) else 2):
                            for rows in itertools.product(tiny, repeat=k):
                                cases.append((f"{fam}:{per}", tzname, "utf-8", sort, rows))
        else:
            _, kind = sc
            zrows = [(ts,) + OHLC[0] + (v,) for ts in TS for v in ZERO_VOLS]
            for sort in (True, False):
                for k in range(0, 3):
                    for rows in itertools.product(zrows, repeat=k):
                        cases.append((kind, "utc", "utf-8", sort, rows))
        for kind, tzname, encname, sort, rows in cases:
            bad, n = csv_case(kind, encname, sort, rows, tmpdir, tzname)
            res.executions += 1
            res.transitions += len(rows) + 1
            res.validated += 1
            key = h64((sc, kind, tzname, encname, sort, rows))
            res.states.add(key)
            if n:
                res.nontrivial.add(key)
            res.outcomes[f"{sc[0]}:{min(n, 2)} events"] += 1
            case = dict(kind="csv", source=kind, encoding=encname, sort=sort, rows=[list(r) for r in rows], tz=tzname)
            if not res.samples and n >= 1:
                res.samples.append(case)
            for clause, detail in bad:
                res.violation(f"{PROPERTY}:{clause}:{kind.split('-')[0].split(':')[0]}", f"{detail}; {case}", case, size=len(rows))
    finally:
        shutil.rmtree(tmpdir, ignore_errors=True)


def run_bar_ctor(res):
    g = [D(1), D(2), D(3)]
    for o, h, lo, c in itertools.product(g, repeat=4):
        res.executions += 1
        res.transitions += 1
        res.states.add(h64(("bar", o, h, lo, c)))
        valid = lo <= o <= h and lo <= c <= h
        try:
            b = cbar.Bar(datetime.datetime(2020, 1, 1, tzinfo=UTC), P, o, h, lo, c, D(1))
            ok = b.low <= b.open <= b.high and b.low <= b.close <= b.high
            res.nontrivial.add(h64(("bar", o, h, lo, c)))
            res.outcomes["bar-accepted"] += 1
            if not ok:
                res.violation(f"{PROPERTY}:bar-invariant:ctor", f"Bar accepted O={o} H={h} L={lo} C={c}",
                              dict(kind="bar-ctor", ohlc=[str(o), str(h), str(lo), str(c)]), 1)
        except cbar.InvalidBar:
            res.outcomes["bar-rejected"] += 1
            if valid:
                res.violation(f"{PROPERTY}:bar-rejected-valid:ctor", f"Bar rejected valid O={o} H={h} L={lo} C={c}",
                              dict(kind="bar-ctor", ohlc=[str(o), str(h), str(lo), str(c)]), 1)
    res.samples.append(dict(kind="bar-ctor", grid=[1, 2, 3]))


# ---- trades -> bars ---------------------------------------------------------------------------------------------------
EPOCH = datetime.datetime(2020, 1, 1, 0, 0, 0, tzinfo=UTC)
EPOCH_TS = 1577836800  # EPOCH as a Unix timestamp (EPOCH_TS % 7 == 1: 7-second windows are NOT aligned with the start)
US = datetime.timedelta(microseconds=1)
ACTS = ("b", "b1", "mid", "e_ms", "tail", "e_us", "next", "next_mid", "prev", "FLUSH")
VAL_ACTS = ("mid", "e_us", "next", "FLUSH")  # the value family: fewer positions, every price
PRICES = (1, 2, 3)
CYCLE = (2, 3, 1)  # the timing family: price of the k-th push (non-monotone: the maximum is neither first nor last)
START_OFF = 0.25
VIAS = ("core", "bitstamp", "exchange")


def offsets(dur):
    n = dur * 1_000_000
    return {"b": 0, "b1": 1, "mid": n // 2, "e_ms": n - 1000, "tail": n - 999, "e_us": n - 1, "next": n, "next_mid": n + n // 2, "prev": -1}


def amount_of(k):
    """Amount of the k-th push: powers of two, so that every set of trades has its own sum."""
    return D(2) ** k / 8


def step_parts(step, k):
    """A step is a position symbol (price from CYCLE) or 'symbol:price'."""
    if ":" in step:
        a, p = step.split(":")
        return a, D(p)
    return step, D(CYCLE[k % len(CYCLE)])


def trade_json(k, ts_us, price, amount):
    return {"id": k + 1, "amount_str": str(amount), "price_str": str(price), "type": 0, "microtimestamp": str(ts_us),
            "buy_order_id": 1, "sell_order_id": 2, "amount": float(amount), "price": float(price)}


def run_trades(via, dur, flush_delay, skip_first, actions):
    """via = 'core': basana.core.bar.RealTimeTradesToBar.push_trade; 'bitstamp': the subclass of the Bitstamp exchange module
    fed through on_trade_event with TradeEvents whose `when` is the (virtual) reception time, not the trade's own time;
    'exchange': Exchange.subscribe_to_bar_events end to end (fake websocket -> trade source -> real realtime dispatcher ->
    aggregator -> dispatcher -> bar handler).
    Returns pushed [(timestamp in us since the Unix epoch, price, amount, loop time of the push)], bars [(loop time at
    which the event became available, event)], errors, outcome."""
    loop = VLoop()
    loop._vtime = START_OFF  # start in the middle of a window
    saved = bdt.utc_now
    bdt.utc_now = lambda: EPOCH + datetime.timedelta(seconds=loop.time())
    errors = []
    pushed = []
    avail = []
    off = offsets(dur)
    holder = {}
    patched = []
    try:
        if via == "exchange":
            from basana.core import websockets as cws
            from basana.external.bitstamp import exchange as sx, trades as strades
            from mc.vtime import VirtualTime
            from worlds.ws import Env, FakeSession
            if getattr(cws, "time", None) is not None:
                patched.append((cws, "time", cws.time))
                cws.time = VirtualTime(lambda: EPOCH_TS + loop.time())
            env = Env(loop)
            d = bs.realtime_dispatcher(max_concurrent=5)
            ex = sx.Exchange(d, session=FakeSession(env))

            async def on_bar(ev):
                avail.append((loop.time(), ev))
            ex.subscribe_to_bar_events(P, dur, on_bar, skip_first_bar=skip_first, flush_delay=flush_delay)
            channel = strades.get_public_channel(P)
            src = None
        else:
            if via == "bitstamp":
                from basana.external.bitstamp import exchange as sx, trades as strades
                src = sx.RealTimeTradesToBar(P, dur, skip_first_bar=skip_first, flush_delay=flush_delay)
            else:
                src = cbar.RealTimeTradesToBar(P, dur, skip_first_bar=skip_first, flush_delay=flush_delay)
            src.on_error = lambda e: errors.append(str(getattr(e, "message", e))[:40])
            orig_push = src.push

            def recording_push(ev):
                avail.append((loop.time(), ev))
                return orig_push(ev)
            src.push = recording_push

        async def driver():
            if via == "exchange":
                await asyncio.sleep(0.005)  # the websocket connects and subscribes
            k = 0
            for step in actions:
                now = loop.time()
                w = int((EPOCH_TS + now) // dur)  # index of the current window, windows counted from the Unix epoch
                a, price = step_parts(step, k)
                if a == "FLUSH":
                    t_flush = (w + 1) * dur - EPOCH_TS + flush_delay + 0.005  # well after the flush, whatever the window-end constant
                    if t_flush <= now + 0.006:
                        t_flush += dur
                    await asyncio.sleep(t_flush - now)
                else:
                    ts_us = w * dur * 1_000_000 + off[a]
                    amount = amount_of(k)
                    if via == "core":
                        src.push_trade(EPOCH + (ts_us - EPOCH_TS * 1_000_000) * US, price, amount)
                    elif via == "bitstamp":
                        await src.on_trade_event(strades.TradeEvent(bdt.utc_now(), strades.Trade(P, trade_json(k, ts_us, price, amount))))
                    else:
                        ws = env.live()
                        if ws is None:
                            errors.append("no live websocket")
                        else:
                            ws.deliver("text", json.dumps({"event": "trade", "channel": channel,
                                                           "data": trade_json(k, ts_us, price, amount)}))
                    pushed.append((ts_us, price, amount, now))
                    k += 1
                    await asyncio.sleep(0.01)
            await asyncio.sleep(2 * dur + flush_delay + 0.01)
            if via == "exchange":
                d.stop()
            else:
                holder["mt"].cancel()

        async def main():
            if via == "exchange":
                await asyncio.gather(d.run(stop_signals=[]), driver())
                return
            holder["mt"] = asyncio.ensure_future(src.main())
            await driver()
            try:
                await holder["mt"]
            except asyncio.CancelledError:
                pass
        out = "ok"
        try:
            t = loop.run(main(), horizon=100000, max_steps=2_000_000)
            if t.exception() is not None:
                out = "raised:" + type(t.exception()).__name__
        except Exception as x:  # noqa
            out = type(x).__name__
        finally:
            loop.shutdown()
    finally:
        bdt.utc_now = saved
        for m, name, v in patched:
            setattr(m, name, v)
    if src is not None:
        popped = []
        while (e := src.pop()) is not None:
            popped.append(e)
        if len(popped) != len(avail) or any(a is not b for a, (_, b) in zip(popped, avail)):
            errors.append("popped events differ from pushed events")
            avail = [(None, e) for e in popped]
    return pushed, avail, errors, out


def trades_oracle(dur, flush_delay, skip_first, pushed, avail, out):
    bad = []
    if out != "ok":
        bad.append(("trades-run", out))
    accepted = []
    last = None
    window = datetime.timedelta(seconds=dur)
    dur_us = dur * 1_000_000

    def flush_time(k):
        # loop time before which a push is certainly before the flush of window k (dispatch latency of the end-to-end
        # driver included)
        return (k + 1) * dur - EPOCH_TS + flush_delay - 0.05
    first_window = int((EPOCH_TS + START_OFF) // dur)  # windows that ended before the aggregator started are never flushed
    for ts, price, amount, at in pushed:
        k = ts // dur_us
        inorder = (last is None or ts >= last) and k >= first_window and at < flush_time(k)
        if last is None or ts >= last:
            last = ts
        if inorder:
            accepted.append((k, ts, price, amount))
    ref = collections.OrderedDict()
    for k, ts, price, amount in accepted:
        if skip_first and k == first_window:
            continue
        ref.setdefault(k, []).append((price, amount))
    got = {}
    unix0 = datetime.datetime(1970, 1, 1, tzinfo=UTC)
    for at, e in avail:
        k = int((e.bar.datetime - unix0) // window)
        if k in got:
            bad.append(("two-bars-one-window", f"window {k}"))
        got[k] = e
        begin = unix0 + k * window
        if e.bar.datetime != begin:
            bad.append(("bar-begin", f"bar of window {k} begins at {e.bar.datetime}"))
        end = begin + window
        if not (end - datetime.timedelta(milliseconds=1) <= e.when <= end):
            bad.append(("bar-stamp", f"bar of window {k} stamped {e.when}, window ends {end}"))
        # emitted at the end of its window, not before: the instant at which the event became available
        if at is not None and EPOCH + datetime.timedelta(seconds=at) < end - datetime.timedelta(milliseconds=1, microseconds=10):
            bad.append(("bar-early", f"bar of window {k} (ends {end}) was available at {EPOCH + datetime.timedelta(seconds=at)}"))
    for k, trades in ref.items():
        if k not in got:
            bad.append(("trade-lost", f"in-order trades of window {k} are in no bar: (price, amount) {trades}"))
            continue
        b = got[k].bar
        prices = [p for p, _ in trades]
        if (b.open, b.high, b.low, b.close, b.volume) != (prices[0], max(prices), min(prices), prices[-1], sum(a for _, a in trades)):
            bad.append(("bar-values", f"window {k}: bar O/H/L/C/V {(b.open, b.high, b.low, b.close, b.volume)} for trades "
                        f"(price, amount) {trades}"))
    for k in got:
        if k not in ref:
            bad.append(("bar-without-trades", f"bar for window {k} although no in-order trade belongs to it"))
    whens = [e.when for _, e in avail]
    if whens != sorted(whens):
        bad.append(("bars-out-of-order", f"{whens}"))
    return bad


def trade_sequences(sc, tier):
    fam, via, dur, fd, sf, a0 = sc
    depth = BOUNDS[tier]["trade_depth"]
    if fam == "trades":
        if via == "exchange":
            depth = BOUNDS[tier]["exchange_depth"]
        elif tier == "quick" and (dur != 1 or fd == 0 or via != "core"):
            depth -= 1  # the full depth for 1-second bars with a flush delay; one step less for the other combinations
        elif tier == "thorough" and (dur in (7, 13) or via != "core"):
            depth -= 1  # thorough: the full depth for the core aggregator with 1- and 60-second bars
        for n in range(1, depth + 1):
            for tail in itertools.product(ACTS, repeat=n - 1):
                yield (a0,) + tail
    else:  # values: every price of every push
        depth = BOUNDS[tier]["value_depth"]
        steps = [f"{a}:{p}" for a in VAL_ACTS if a != "FLUSH" for p in PRICES] + ["FLUSH"]
        firsts = [a0] if a0 == "FLUSH" else [f"{a0}:{p}" for p in PRICES]
        for n in range(1, depth + 1):
            for first in firsts:
                for tail in itertools.product(steps, repeat=n - 1):
                    yield (first,) + tail


def run_trades_scenarios(sc, tier, res):
    fam, via, dur, fd, sf, a0 = sc
    for acts in trade_sequences(sc, tier):
        pushed, avail, errors, out = run_trades(via, dur, fd, sf, acts)
        n = len(acts)
        res.executions += 1
        res.transitions += n
        res.validated += 1
        key = h64((sc, acts))
        res.states.add(key)
        if avail:
            res.nontrivial.add(key)
        res.outcomes[f"{fam}:{via}:{min(len(avail), 2)} bars"] += 1
        case = dict(kind="trades", via=via, duration=dur, flush_delay=fd, skip_first_bar=sf, steps=list(acts))
        if not res.samples and len(avail) >= 2:
            res.samples.append(case)
        for clause, detail in trades_oracle(dur, fd, sf, pushed, avail, out):
            res.violation(f"{PROPERTY}:{clause}:trades-{via}", f"{detail}; {case}", case, size=n)
        if errors and via == "exchange" and "no live websocket" in errors:
            res.violation(f"{PROPERTY}:harness-no-websocket:trades-{via}", f"the fake websocket was not connected; {case}", case, size=n)


def run_scenario(sc, tier):
    res = Result()
    if sc[0] == "csv":
        run_csv(sc, tier, res)
    elif sc[0] in ("csv-tz", "csv-periods", "csv-zero"):
        run_csv_extra(sc, tier, res)
    elif sc[0] == "bar-ctor":
        run_bar_ctor(res)
    else:
        run_trades_scenarios(sc, tier, res)
    return res


def replay(rep):
    print("case:", rep)
    if rep["kind"] == "csv":
        tmpdir = tempfile.mkdtemp(prefix="c19csv")
        try:
            bad, _ = csv_case(rep["source"], rep["encoding"], rep["sort"], [tuple(r) for r in rep["rows"]], tmpdir,
                              rep.get("tz", "utc"))
        finally:
            shutil.rmtree(tmpdir, ignore_errors=True)
        return [f"{c}: {d}" for c, d in bad]
    if rep["kind"] == "trades":
        pushed, avail, errors, out = run_trades(rep.get("via", "core"), rep["duration"], rep["flush_delay"], rep["skip_first_bar"],
                                                tuple(rep["steps"]))
        for ts, price, amount, at in pushed:
            print(f"  pushed at {at:.6f}s: trade time {datetime.datetime.fromtimestamp(ts // 1_000_000, UTC)} +{ts % 1_000_000}us "
                  f"price {price} amount {amount}")
        for at, e in avail:
            print("  bar available at", at, "stamped", e.when, "begin", e.bar.datetime, "O/H/L/C/V", e.bar.open, e.bar.high,
                  e.bar.low, e.bar.close, e.bar.volume)
        return [f"{c}: {d}" for c, d in trades_oracle(rep["duration"], rep["flush_delay"], rep["skip_first_bar"], pushed, avail, out)]
    res = Result()
    run_bar_ctor(res)
    return [v["message"] for v in res.violations]

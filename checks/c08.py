"""C08 - fills respect bar liquidity and instrument precision (DESIGN.md section 3, C08): BFS over operation histories of the real exchange."""
from checks import _exch_common as X

PROPERTY = "C08"
RULE = ("state = canonical key of the real exchange reached by an operation history (balances, holds, borrowed, open "
        "orders, open loans, last closes, re-index phase); transitions = every action of the configuration's alphabet "
        "(bars, market/limit/stop/stop-limit orders with and without auto-borrow/auto-repay, cancels, loans, repayments, "
        "invalid requests) from every state up to the depth; the liquidity-budget and precision-grid oracle runs on every transition. Distinct = "
        "distinct states; non-trivial = reached by a transition that produced order events, a rejection or a loan.")
ASSUMPTIONS = [
    "amounts 1..5 units (x10 in K29), price grid {30,33.37,90,100,110,300}, volumes giving 0/1/2.5/2.75/3/4/10 units of liquidity; configurations of "
    "checks/_exch_common.py (fee x liquidity x lending x precision x initial balances x 1-2 pairs)",
    "strategy actions are issued after at least one bar (orders placed before the first event are a separate scenario)",
    "the synchronous driver is validated against the public-API driver on all short histories (conformance scenarios) "
    "and on every reported violation",
]
SPEC = {
    'quick': [('K9s', 'liq', 4),
              ('K35', 'cross2', 3),
              ('K36', 'liq', 4),
              ('K26', 'liq', 3),
              ('K28', 'liq', 4),
              ('K29', 'liq', 3),
              ('K24', 'liq', 3),
              ('K20', 'std', 3),
              ('K20', 'small', 4),
              ('K0', 'std', 3),
              ('K9', 'full', 3),
              ('K0', 'liq', 4),
              ('K9', 'liq', 4),
              ('K14', 'liq', 4),
              ('K11', 'std', 3),
              ('K6', 'small', 3)],
    'conf_quick': [('K9', 3)],
    'conf_thorough': [('K9', 3), ('K11', 3)],
}
# K21 has an initial balance off the precision grid: outside C08's precondition
SPEC['thorough'] = X.thorough_spec(SPEC['quick'], [('K14', 'lend'), ('K1', 'lend')], exclude=('K21',))
BOUNDS = {t: dict(spec=SPEC[t]) for t in ("quick", "thorough")}
EXPLANATION = ("explicit-state BFS over operation histories with state de-duplication; every transition executes the "
               "real exchange; traces_validated_against_impl = histories executed through BOTH drivers (sync and "
               "public API under a real dispatcher) with identical complete observable state")


def scenarios(tier, seed):
    return X.plan(PROPERTY, tier, SPEC)


def run_scenario(sc, tier):
    return X.run_scenario(PROPERTY, sc, tier)


def replay(rep):
    return X.replay(PROPERTY, rep)

"""C05 - order lifecycle state machine mirrored by order events (DESIGN.md section 3, C05): BFS over operation histories of the real exchange."""
from checks import _exch_common as X

PROPERTY = "C05"
RULE = ("state = canonical key of the real exchange reached by an operation history (balances, holds, borrowed, open "
        "orders, open loans, last closes, re-index phase); transitions = every action of the configuration's alphabet "
        "(bars, market/limit/stop/stop-limit orders with and without auto-borrow/auto-repay, cancels, loans, repayments, "
        "invalid requests) from every state up to the depth; the lifecycle / listing / event-stream oracle runs on every transition. Distinct = "
        "distinct states; non-trivial = reached by a transition that produced order events, a rejection or a loan.")
ASSUMPTIONS = [
    "amounts 1..5 units (x10 in K29), price grid {30,33.37,90,100,110,300}, volumes giving 0/1/2.5/2.75/3/4/10 units of liquidity; configurations of "
    "checks/_exch_common.py (fee x liquidity x lending x precision x initial balances x 1-2 pairs)",
    "strategy actions are issued after at least one bar (orders placed before the first event are a separate scenario)",
    "the synchronous driver is validated against the public-API driver on all short histories (conformance scenarios) "
    "and on every reported violation",
]
SPEC = {
    'quick': [('K20', 'std', 3),
              ('K39', 'small', 3),
              ('lasso3', 'K0', 'reidx', 20),
              ('K27', 'small', 3),
              ('K0p', 'small', 3),
              ('K1', 'ar', 7),
              ('K0', 'std', 3),
              ('K0', 'liq', 4),
              ('K9', 'liq', 4),
              ('K5', 'small', 3),
              ('K1', 'small', 4),
              ('lasso', 'K0', 'liq', 2, 30),
              ('lasso', 'K5', 'pairs2', 2, 60)],
    'conf_quick': [('K0', 3), ('K39', 3)],
    'conf_thorough': [('K0', 3), ('K9', 3)],
}
SPEC['thorough'] = X.thorough_spec(SPEC['quick'], [('K1', 'lend'), ('K10', 'lend')])
BOUNDS = {t: dict(spec=SPEC[t]) for t in ("quick", "thorough")}
EXPLANATION = ("explicit-state BFS over operation histories with state de-duplication; every transition executes the "
               "real exchange; traces_validated_against_impl = histories executed through BOTH drivers (sync and "
               "public API under a real dispatcher) with identical complete observable state")


def scenarios(tier, seed):
    return X.plan(PROPERTY, tier, SPEC)


def run_scenario(sc, tier):
    return X.run_scenario(PROPERTY, sc, tier)


def replay(rep):
    return X.replay(PROPERTY, rep)

"""C03 - no look-ahead; backtest results independent of dispatcher concurrency, hash seed, repetition (DESIGN.md 4, C03).

e2e driver: a real BacktestingDispatcher.run() on the virtual loop, bar sources registered with Exchange.add_bar_source,
strategies subscribed through subscribe_to_bar_events / subscribe_to_order_events / a TradingSignalSource. 2-4 pairs
(more sources than max_concurrent + 1 included), one source per pair or a single source carrying all pairs, shared or
staggered timestamps, strategy subscribed before or after the bar sources, passive second subscribers, one or two
(competing for the same funds) order placements.
"""
import asyncio
import hashlib
import itertools
import os
import subprocess
import sys
from decimal import Decimal as D

import basana as bs
from basana.backtesting import exchange as ex, liquidity
from basana.core.event_sources import trading_signal as _ts

from mc.chooser import Chooser, explore
from mc.framework import Result, h64, VERIF
from worlds.dsp import Gates, T, run_on_vloop, secs
from worlds import exch, exch_bfs

PROPERTY = "C03"
RULE = ("scenario = (#pairs, timestamp pattern, source layout, subscription order, strategy path (bar / trading signal / "
        "order event), passive subscribers, placement script, order type); per scenario: clause 2 runs the default "
        "(non-suspending) schedule for max_concurrent 1/2/3/50 twice and compares complete fill history + final "
        "balances; clause 1 explores every handler suspension pattern within the deviation bound for each "
        "max_concurrent and checks fill time > submission time. Distinct = distinct (scenario, max_concurrent, fill "
        "history); non-trivial = at least one fill.")
ASSUMPTIONS = [
    "prices: flat bars 100+t+i, infinite liquidity, no fees; amounts of 1 unit; 2-3 pairs (quick), up to 4 (thorough)",
    "hash-seed independence is decided by re-running all clause-2 scenarios in child processes under other "
    "PYTHONHASHSEED values and comparing digests",
    "CPython FIFO ready-queue order is kept; only suspension patterns and external completion order are permuted",
]
BOUNDS = {"quick": dict(max_pairs=3, deviation_bound=1), "thorough": dict(max_pairs=4, deviation_bound=2)}
EXPLANATION = ("implementation-level model checking through the public API; traces_validated_against_impl counts "
               "executions re-run with identical observations (clause 2 runs everything twice)")
MAXCS = (1, 2, 3, 50)


def base_scenarios(tier):
    out = []
    for npairs in range(2, BOUNDS[tier]["max_pairs"] + 1):
        tpats = [tuple([(1, 2, 3)] * npairs), tuple((1 + i % 2, 2 + i % 2, 4) for i in range(npairs))]
        singles = [((src, dst),) for src, dst in itertools.product(range(npairs), repeat=2)]
        doubles = [((a, a), (b, b)) for a, b in itertools.combinations(range(npairs), 2)]
        doubles += [((a, b), (b, a)) for a, b in itertools.combinations(range(npairs), 2)]
        if npairs == 4 and tier == "thorough":
            singles = [s for s in singles if s[0][0] in (0, 3)]
        for times in tpats:
            for layout in ("per-pair", "merged"):
                for derived_first in (True, False):
                    for path in ("bar", "signal", "order-event"):
                        for recorder in (None, 0, npairs - 1):
                            for script in singles + doubles:
                                for otype in ("market", "limit", "limit-cancel"):
                                    if otype != "market" and (path != "bar" or recorder is not None):
                                        continue
                                    if otype == "limit-cancel" and len(script) > 1:
                                        continue
                                    if recorder is not None and path == "order-event":
                                        continue
                                    out.append((npairs, times, layout, derived_first, path, recorder, script, otype))
                # signals pushed by a job at a bar's own time; only with the signal source subscribed after the bar sources
                # (a source fed by a job is not DERIVED from the bars: subscribed first it legitimately goes first)
                for script in singles:
                    out.append((npairs, times, layout, False, "job-signal", None, script, "market"))
                    out.append((npairs, times, layout, False, "job-signal", "mid", script, "market"))
    return out


_PROBE = ("import sys; sys.path.insert(0, %r)\nfrom mc import repo; repo.bind()\nimport basana as bs\n"
          "B, S = bs.OrderOperation.BUY, bs.OrderOperation.SELL\n"
          "P = [bs.Pair('BTC', 'USD'), bs.Pair('ETH', 'USD'), bs.Pair('ETH', 'BTC')]\n"
          "sets = [(B, S), ('BTC', 'USD'), ('ETH', 'USD'), ('BTC', 'ETH'), (P[0], P[1]), (P[0], P[2]), (P[1], P[2])]\n"
          "print(''.join('0' if list({a, b})[0] == a else '1' for a, b in sets))")


def covering_seeds(extra):
    """Hash seeds chosen so that every two-element set of the values the exchange keeps in hash-ordered collections (the two
    order operations, symbols, pairs) is iterated in BOTH orders by some run: the parent runs under seed 0, the children
    under the returned seeds. (A fixed list of seeds can agree with seed 0 on any given set by chance.)"""
    sig = {}
    parent = os.environ.get("PYTHONHASHSEED", "0")
    parent = int(parent) if parent.isdigit() else 0
    for hs in sorted({parent} | set(range(0, 17))):
        env = dict(os.environ, PYTHONHASHSEED=str(hs))
        out = subprocess.run([sys.executable, "-B", "-c", _PROBE % VERIF], env=env, capture_output=True, text=True, cwd=VERIF)
        if out.returncode != 0:
            raise RuntimeError("hash-seed probe failed: " + out.stderr[-300:])
        sig[hs] = out.stdout.strip().splitlines()[-1]
    base = sig[parent]
    need = set(range(len(base)))
    chosen = []
    while need:
        best = max((h_ for h_ in range(0, 17) if h_ != parent),
                   key=lambda hs: (len([i for i in need if sig[hs][i] != base[i]]), -hs))
        gain = [i for i in need if sig[best][i] != base[i]]
        if not gain:
            break
        chosen.append(best)
        need -= set(gain)
    for hs in extra:
        if hs not in chosen:
            chosen.append(hs)
    return chosen


def scenarios(tier, seed):
    seeds = covering_seeds([1] if tier == "quick" else [1, 2 + (seed % 1000), 12345, 4242])
    out = [("hashseed", s, tier) for s in seeds]  # first: they are the longest single work items
    # lending histories (several equal loans, auto-repay orders that can afford only some of them): results must not
    # depend on the random order / loan ids
    for name, depth in ((("K1", 6), ("K10", 6)) if tier == "quick" else (("K1", 7), ("K10", 7), ("K13", 7))):
        for b in (0, 14, 15):
            out.append(("ids", name, depth, b))
    out += [("ids", name, 0, 0) for name in TIE_CONFIGS]
    # many open orders on one pair (a grid / ladder strategy) next to another pair with the same timestamps, both short of
    # funds at fill time: results must not depend on max_concurrent
    for n0 in (1, 7, 99, 100, 101, 120, 250):
        for n1 in (1, 10):
            out.append(("ladder", n0, n1))
    out += [("explore", b) for b in base_scenarios(tier)]
    return out


def run_ladder(sc, res):
    _, n0, n1 = sc
    PA, PB = bs.Pair("P0", "USD"), bs.Pair("P1", "USD")

    def one(maxc, placing_pair):
        d = bs.backtesting_dispatcher(max_concurrent=maxc)
        # the holds are taken at the first price (10); the fills happen after a gap up, so only some orders can be paid for
        funds = D(10) * (n0 + n1) + D(50)
        e = ex.Exchange(d, {"USD": funds}, liquidity_strategy_factory=liquidity.InfiniteLiquidity)

        def bars(pair, prices):
            return [bs.BarEvent(T(t + 1), bs.Bar(T(t), pair, D(p), D(p), D(p), D(p), D(10 ** 6))) for t, p in enumerate(prices)]
        idx = {}
        fills = []
        done = [False]

        async def on_bar(ev):
            if done[0]:
                return
            done[0] = True
            for pair, n in ((PA, n0), (PB, n1)):
                for _ in range(n):
                    o = await e.create_market_order(bs.OrderOperation.BUY, pair, D(1))
                    idx[o.id] = len(idx)

        async def on_order(ev):
            if ev.order.amount_filled:
                fills.append((idx[ev.order.id], secs(ev.when), str(ev.order.amount_filled), str(ev.order.quote_amount_filled)))
        e.add_bar_source(bs.FifoQueueEventSource(events=bars(PA, [10, 12, 12])))
        e.add_bar_source(bs.FifoQueueEventSource(events=bars(PB, [10, 15, 15])))
        e.subscribe_to_bar_events(placing_pair, on_bar)
        e.subscribe_to_order_events(on_order)
        out, exc, loop = run_on_vloop(lambda loop: d.run(stop_signals=[]), patch_clock=False)
        bal = {k: (str(v.available), str(v.hold), str(v.borrowed)) for k, v in sorted(exch.call(e.get_balances()).items())}
        orders = sorted((idx[o.id], str(o.amount_filled), str(o.quote_amount_filled), o.is_open) for o in exch.call(e.get_orders()))
        return (out, repr(exc), bal, orders, sorted(fills))
    for placing in (PA, PB):
        ref = None
        for maxc in MAXCS:
            r = one(maxc, placing)
            res.executions += 1
            res.transitions += 1
            res.outcomes[r[0]] += 1
            res.states.add(h64(("ladder", n0, n1, str(placing), maxc, repr(r[2]))))
            if r[4]:
                res.nontrivial.add(h64(("ladder", n0, n1, str(placing), maxc)))
            case = dict(kind="ladder", n0=n0, n1=n1, placing=str(placing), maxc=maxc)
            if r[0] != "returned":
                res.violation(f"{PROPERTY}:run-outcome:ladder", f"run ended with {r[0]} {r[1]}; {case}", case, size=n0 + n1)
            if ref is None:
                ref = (maxc, r)
            elif r != ref[1]:
                res.violation(f"{PROPERTY}:depends-on-max-concurrent:ladder",
                              f"max_concurrent={ref[0]} fills {len(ref[1][4])} orders, balances {ref[1][2]}; max_concurrent={maxc} "
                              f"fills {len(r[4])} orders, balances {r[2]}; {case}", case, size=n0 + n1)
            else:
                res.validated += 1
    if not res.samples:
        res.samples.append(dict(kind="ladder", n0=n0, n1=n1))
    return res


_BAR_LISTS = {}
_BAR_LENS = {}
input_consumed = []  # reports of a run having changed the input lists of its scenario


def make_run(base, maxc, states=None):
    npairs, times, layout, derived_first, path, recorder, script, otype = base
    PS = [bs.Pair(f"P{i}", "USD") for i in range(npairs)]
    competing = len(script) > 1

    def run_one(ch):
        d = bs.backtesting_dispatcher(max_concurrent=maxc)
        e = ex.Exchange(d, {"USD": D(150) if competing else D(10 ** 6)},
                        liquidity_strategy_factory=liquidity.InfiniteLiquidity)
        subs = []      # (order index, id, submitted at)
        rejected = []  # (placement, at)
        fills = []     # (order id, when, cumulative base filled, cumulative quote)
        gates = Gates(ch)
        sig = bs.TradingSignalSource(d)
        placed_followup = [False]
        cancels = []

        def note():
            if states is not None:
                states.add(h64((len(subs), len(rejected), tuple(fills), len(gates.pending))))

        async def place(dst, tag):
            note()
            await gates.suspend("pre")
            try:
                if otype == "market":
                    o = await e.create_market_order(bs.OrderOperation.BUY, PS[dst], D(1))
                elif otype == "limit":
                    o = await e.create_limit_order(bs.OrderOperation.BUY, PS[dst], D(1), D(120))
                else:
                    # rests below the market; the handler of the source pair's next bar cancels it (or finds it filled)
                    o = await e.create_limit_order(bs.OrderOperation.BUY, PS[dst], D(1), D(103))
                    to_cancel.append(o.id)
                subs.append((len(subs), o.id, secs(d.now()), tag))
            except ex.Error:
                rejected.append((tag, secs(d.now())))
            await gates.suspend("post")

        to_cancel = []

        def mkh(i):
            async def h(ev):
                if path == "signal" and competing:
                    # one signal carrying every pair of the script; the signal handler walks get_pairs()
                    if i == script[0][0] and ev.when == T(times[i][0]):
                        s_ = _ts.BaseTradingSignal(ev.when)
                        for (_src, dst) in script:
                            s_.add_pair(PS[dst], bs.Position.LONG)
                        for extra in range(npairs):  # every other pair too: more keys, more ways to order them
                            if PS[extra] not in dict(s_.get_pairs()):
                                s_.add_pair(PS[extra], bs.Position.LONG)
                        sig.push(s_)
                    return
                if otype == "limit-cancel" and i == script[0][0] and to_cancel and ev.when > T(times[i][0]):
                    oid = to_cancel.pop()
                    await gates.suspend("pre-cancel")
                    try:
                        await e.cancel_order(oid)
                        cancels.append(("cancelled", secs(d.now())))
                    except ex.Error:
                        cancels.append(("cancel-failed", secs(d.now())))
                for k, (src, dst) in enumerate(script):
                    if path == "job-signal":
                        continue  # the signals come from a scheduled job, see below
                    if src == i and ev.when == T(times[src][0]):
                        if path == "signal":
                            sig.push(bs.TradingSignal(ev.when, bs.Position.LONG, PS[dst]))
                        else:
                            await place(dst, f"s{k}")
            return h

        async def on_signal(s):
            for p_, _pos in s.get_pairs():
                await place(PS.index(p_), "sig")

        async def on_order(ev):
            if ev.order.amount_filled:
                fills.append((ev.order.id, secs(ev.when), str(ev.order.amount_filled), str(ev.order.quote_amount_filled)))
            elif path == "order-event" and ev.order.is_open and not placed_followup[0]:
                placed_followup[0] = True
                dst = (script[0][1] + 1) % npairs
                await place(dst, "followup")

        async def passive(ev):
            await gates.suspend("rec")

        harness_errors = []

        def loud(fn):
            # the dispatcher logs and swallows handler exceptions: a bug in the harness's own handlers must not hide
            async def wrapper(ev):
                try:
                    return await fn(ev)
                except asyncio.CancelledError:
                    raise
                except Exception as x:  # noqa
                    harness_errors.append(f"{type(x).__name__}: {x}")
                    raise
            return wrapper

        def subscribe():
            for i in range(npairs):
                if recorder == i and recorder != "mid":
                    e.subscribe_to_bar_events(PS[i], loud(passive))
                e.subscribe_to_bar_events(PS[i], loud(mkh(i)))
            sig.subscribe_to_trading_signals(loud(on_signal))
            e.subscribe_to_order_events(loud(on_order))

        def bar(i, t):
            p = D(100 + t + i)
            return bs.BarEvent(T(t), bs.Bar(T(t - 1), PS[i], p, p, p, p, D(1000)))

        if path == "job-signal":
            # A job scheduled for exactly a bar's time (a rebalance at midnight with daily bars) pushes trading signals stamped
            # with that time; jobs run before the events of their time, so the signal is already queued when the bars of T
            # are popped. With the signal source subscribed AFTER the bar sources the exchange sees the bars of T first.
            # recorder == "mid": the job runs strictly BETWEEN two bar times (the signal carries the job's own time)
            off = 0.5 if recorder == "mid" else 0

            def mkjob(src, dst):
                async def job():
                    sig.push(bs.TradingSignal(T(times[src][0] + off), bs.Position.LONG, PS[dst]))
                return job
            for (src, dst) in script:
                d.schedule(T(times[src][0] + off), mkjob(src, dst))
        if derived_first:
            subscribe()
        # The bars of a scenario are loaded ONCE into lists that every run of that scenario is given (each max_concurrent
        # value, both repetitions, every explored schedule) - the way one compares runs of a backtest. A run must not use
        # up, or otherwise change, its input.
        key = (npairs, times, layout)
        lists = _BAR_LISTS.get(key)
        if lists is None:
            if layout == "per-pair":
                lists = [[bar(i, t) for t in times[i]] for i in range(npairs)]
            else:
                evs = sorted(((t, i) for i in range(npairs) for t in times[i]))
                lists = [[bar(i, t) for t, i in evs]]
            if len(_BAR_LISTS) > 64:
                _BAR_LISTS.clear()
            _BAR_LISTS[key] = lists
            _BAR_LENS[key] = [len(x) for x in lists]
        elif [len(x) for x in lists] != _BAR_LENS[key]:
            input_consumed.append(f"the bar lists given to an earlier run now hold {[len(x) for x in lists]} events, "
                                  f"{_BAR_LENS[key]} were loaded")
        for lst in lists:
            e.add_bar_source(bs.FifoQueueEventSource(events=lst))
        if not derived_first:
            subscribe()

        def quiescent(loop):
            note()
            return gates.on_quiescent(loop)

        out, exc, loop = run_on_vloop(lambda loop: d.run(stop_signals=[]), on_quiescent=quiescent)
        if exc is not None:
            out = "raised:" + type(exc).__name__
        if harness_errors:
            raise RuntimeError("HARNESS-ERROR in a strategy handler of the C03 driver: " + harness_errors[0])
        sub_at = {oid: at for (_, oid, at, _) in subs}
        idx = {oid: k for (k, oid, _, _) in subs}
        look = [(idx[f[0]], f[1], sub_at[f[0]]) for f in fills if f[0] in sub_at and f[1] <= sub_at[f[0]]]
        hist = sorted((idx[f[0]], f[1], f[2], f[3]) for f in fills if f[0] in idx)
        # internal fills (Order.fills) must agree with what the events said
        internal = sorted((idx[o.id], secs(fl.when)) for o in e._get_all_orders() if o.id in idx for fl in o.fills)
        try:
            c = e.get_balances()
            c.send(None)
            bal = None
        except StopIteration as s:
            bal = tuple(sorted((k, str(v.available), str(v.hold), str(v.borrowed)) for k, v in s.value.items()))
        placements = tuple((k, at, tag) for (k, _, at, tag) in subs)
        return dict(out=out, look=look, hist=hist, internal=internal, bal=bal, placements=placements,
                    rejected=tuple(rejected) + tuple(cancels))
    return run_one


def observable(r):
    return (r["out"], tuple(r["hist"]), r["bal"], r["placements"], r["rejected"])


def clause2_digest(tier):
    """Digest of every clause-2 observable (default schedule, all max_concurrent values) - compared across hash seeds."""
    h = hashlib.sha256()
    for base in base_scenarios(tier):
        for maxc in MAXCS:
            r = make_run(base, maxc)(Chooser([]))
            h.update(repr((base, maxc, observable(r))).encode())
    # plus complete observations (fills, fees, balances, loans, event streams) of exchange histories in which several
    # orders - both sides, all types - compete for the same bar under fees, finite liquidity and lending: any iteration over
    # a hash-ordered collection inside order matching / repayment shows up as a different digest under another hash seed
    try:
        for cfg, hist in seed_histories():
            h.update(repr(exch_bfs.normalized(exch_bfs.run_sync(cfg, hist))).encode())
    finally:
        exch.install_random_ids()  # the schedule-exploration scenarios of this worker run with the library's own uuid4 ids
    return h.hexdigest()


def seed_histories():
    from checks import _exch_common as X
    exch.install_deterministic_ids()
    out = []
    for name, level in (("K0", "liq"), ("K1", "lend"), ("K5", "pairs2")):
        cfg = X.CONFIGS[name]
        alpha = [a for a in exch.alphabet(cfg, level) if a[0] != "bar="]
        acts = [a for a in alpha if a[0] != "bar"]
        first = [a for a in alpha if a[0] == "bar"][0]
        last = [a for a in alpha if a[0] == "bar"][:2]
        for a1 in acts:
            for a2 in acts:
                for b in last:
                    out.append((cfg, [first, a1, a2, b]))
    return out


TIE_CONFIGS = {
    "T0": dict(lend=dict(req="0.5", isym="USD", period=10), fee=None, liq=None, init=(("BTC", 3),), bp=0, qp=2),
    "T1": dict(lend=dict(req="1", isym="same", period=7, minint=1), fee=(1, 0), liq=None, init=(("USD", 100), ("BTC", 1)), bp=0, qp=2),
    "T2": dict(lend=dict(req="0.5", isym="USD", period=3), fee=None, liq=(25, 10), init=(("USD", 50), ("BTC", 2)), bp=0, qp=2),
}


def tie_histories():
    """n equal loans opened at different times, the borrowed money spent, then an auto-repay sell whose proceeds cover
    only some of them."""
    out = []
    for n in (2, 3):
        for spend in (1, 2, 3):
            for sell in (1, 2, 3):
                for gap in (0, 1):
                    h = [("bar", 0, 7)]
                    for k in range(n):
                        h.append(("loan", "USD", "100"))
                        h += [("bar", 0, 7)] * (1 + gap)
                    h.append(("ord", "mkt", "B", 0, str(spend), None, None, False, False))
                    h.append(("bar", 0, 7))
                    h.append(("ord", "mkt", "S", 0, str(sell), None, None, False, True))
                    h.append(("bar", 0, 7))
                    out.append(h)
    return out


def run_ids(sc, res):
    """Results must not depend on the (random) order / loan ids: every history is run under three deterministic id schemes
    whose id ORDER differs (ascending with creation, descending, alternating) and the normalised observations compared."""
    from checks import _exch_common as X
    from worlds import exch, exch_bfs
    _, name, depth, b = sc
    exch.install_deterministic_ids()
    if name in TIE_CONFIGS:
        cfg = TIE_CONFIGS[name]
        hists = tie_histories()
    else:
        cfg = X.CONFIGS[name]
        alpha = exch.alphabet(cfg, "ar")
        hists = []
        exch_bfs.bfs(cfg, alpha, depth, [], res, prefix=[("bar", 0, b)], on_state=hists.append)
    try:
        for hist in hists:
            obs = {}
            for scheme in ("asc", "desc", "mix"):
                exch._ids.scheme = scheme
                obs[scheme] = exch_bfs.normalized(exch_bfs.run_sync(cfg, hist))
            res.executions += 3
            res.transitions += 3 * len(hist)
            res.validated += 1
            if any(not lo[1] for lo in obs["asc"]["loans"]):
                res.nontrivial.add(h64((name, repr(hist))))
            for scheme in ("desc", "mix"):
                if obs[scheme] != obs["asc"]:
                    diff = [k for k in obs["asc"] if obs["asc"][k] != obs[scheme][k]]
                    res.violation(f"{PROPERTY}:depends-on-random-ids:lending",
                                  f"the same history gives different {diff} when order / loan ids sort differently: "
                                  f"{[(obs['asc'][k], obs[scheme][k]) for k in diff][:1]}; config={name} history={hist}",
                                  dict(kind="ids", config=name, history=hist), size=len(hist))
                    break
    finally:
        exch._ids.scheme = "asc"
    res.outcomes["ids-histories"] += len(hists)
    if hists:
        res.samples.append(dict(kind="ids", config=name, history=[list(x) for x in hists[-1]]))
    return res


def run_scenario(sc, tier):
    res = Result()
    if sc[0] == "ladder":
        return run_ladder(sc, res)
    if sc[0] == "ids":
        try:
            return run_ids(sc, res)
        finally:
            exch.install_random_ids()
    if sc[0] == "hashseed":
        _, hs, t = sc
        mine = clause2_digest(t)
        env = dict(os.environ, PYTHONHASHSEED=str(hs))
        child = subprocess.run([sys.executable, "-B", "-c",
                                "import sys; sys.path.insert(0, %r)\nfrom mc import repo, vloop; repo.bind(); "
                                "vloop.install_warning_recorder()\nfrom checks import c03; print(c03.clause2_digest(%r))"
                                % (VERIF, t)], env=env, capture_output=True, text=True, cwd=VERIF)
        if child.returncode != 0:
            raise RuntimeError("hash-seed child failed: " + child.stderr[-400:])
        theirs = child.stdout.strip().splitlines()[-1]
        n = len(base_scenarios(t)) * len(MAXCS)
        res.executions += 2 * n
        res.transitions += 2 * n
        res.validated += n
        res.states.add(h64(("digest", theirs)))
        res.outcomes["hashseed-digest-" + ("equal" if mine == theirs else "DIFFERENT")] += 1
        if mine != theirs:
            res.violation(f"{PROPERTY}:hash-seed-dependent", f"clause-2 digest differs between PYTHONHASHSEED="
                          f"{os.environ.get('PYTHONHASHSEED')} and {hs}", dict(kind="hashseed", seed=hs, tier=t), size=1)
        return res
    base = sc[1]
    bound = BOUNDS[tier]["deviation_bound"]
    ref = None
    for maxc in MAXCS:
        # clause 2: default schedule, twice
        r = make_run(base, maxc, res.states)(Chooser([]))
        r2 = make_run(base, maxc)(Chooser([]))
        res.executions += 2
        res.transitions += 2
        res.outcomes[r["out"]] += 1
        if input_consumed:
            res.violation(f"{PROPERTY}:not-repeatable:input-consumed", f"{input_consumed[0]}; scenario={base} "
                          f"max_concurrent={maxc}", dict(kind="c2", base=_j(base), maxc=maxc), size=10 * base[0])
            del input_consumed[:]
            _BAR_LISTS.clear()
        if observable(r2) != observable(r):
            res.violation(f"{PROPERTY}:not-repeatable", f"two runs differ; scenario={base} max_concurrent={maxc}",
                          dict(kind="c2", base=_j(base), maxc=maxc), size=10 * base[0])
        else:
            res.validated += 1
        if ref is None:
            ref = (maxc, observable(r))
            if not res.samples:
                res.samples.append(dict(scenario=repr(base), max_concurrent=maxc, fills=r["hist"], balances=r["bal"],
                                        placements=r["placements"], rejected=r["rejected"]))
        elif observable(r) != ref[1]:
            res.violation(f"{PROPERTY}:depends-on-max-concurrent",
                          f"max_concurrent={ref[0]} gives {ref[1][1:]}, max_concurrent={maxc} gives {observable(r)[1:]}; "
                          f"scenario={base}", dict(kind="c2", base=_j(base), maxc=maxc, ref_maxc=ref[0]),
                          size=10 * base[0] + len(base[6]))
        if r["internal"] != [(k, t) for (k, t, _, _) in r["hist"]]:
            res.violation(f"{PROPERTY}:events-vs-orders", f"fill events {r['hist']} vs order fills {r['internal']}",
                          dict(kind="c2", base=_j(base), maxc=maxc), size=10 * base[0])
        # clause 1: all suspension patterns within the bound
        from mc.chooser import ReplayError
        it = explore(make_run(base, maxc, res.states), bound)
        while True:
            try:
                choices, tr, r = next(it)
            except StopIteration:
                break
            except ReplayError:
                if not input_consumed:
                    raise
                r = None
            if input_consumed:
                # an earlier run of this scenario used up / changed the bar lists it was given: the runs cannot be compared
                res.violation(f"{PROPERTY}:not-repeatable:input-consumed", f"{input_consumed[0]}; scenario={base} "
                              f"max_concurrent={maxc}", dict(kind="c2", base=_j(base), maxc=maxc), size=10 * base[0])
                del input_consumed[:]
                _BAR_LISTS.clear()
                break
            res.executions += 1
            res.transitions += len(tr) + 1
            if r["hist"]:
                res.nontrivial.add(h64((base, maxc, tuple(r["hist"]))))
            if r["out"] != "returned":
                res.violation(f"{PROPERTY}:run-outcome", f"{r['out']}; scenario={base} maxc={maxc} choices={choices}",
                              dict(kind="c1", base=_j(base), maxc=maxc, choices=choices), size=10 * base[0])
            if r["look"]:
                k, ft, st = r["look"][0]
                res.violation(f"{PROPERTY}:look-ahead",
                              f"order #{k} submitted at T={st} was filled by the bar at T={ft}; scenario={base} "
                              f"max_concurrent={maxc} choices={choices}",
                              dict(kind="c1", base=_j(base), maxc=maxc, choices=choices),
                              size=10 * base[0] + len(base[6]) + sum(1 for c in choices if c))
    return res


def _j(base):
    return [base[0], [list(t) for t in base[1]], base[2], base[3], base[4], base[5], [list(s) for s in base[6]], base[7]]


def _unj(b):
    return (b[0], tuple(tuple(t) for t in b[1]), b[2], b[3], b[4], b[5], tuple(tuple(s) for s in b[6]), b[7])


def replay(rep):
    if rep.get("kind") == "ladder":
        res = Result()
        run_ladder(("ladder", rep["n0"], rep["n1"]), res)
        return [v["message"] for v in res.violations][:3]
    if rep.get("kind") == "ids":
        from checks import _exch_common as X
        from worlds import exch, exch_bfs
        cfg = TIE_CONFIGS.get(rep["config"]) or X.CONFIGS[rep["config"]]
        hist = [tuple(a) for a in rep["history"]]
        exch.install_deterministic_ids()
        outs = {}
        for scheme in ("asc", "desc", "mix"):
            exch._ids.scheme = scheme
            outs[scheme] = exch_bfs.normalized(exch_bfs.run_sync(cfg, hist))
        exch._ids.scheme = "asc"
        print("history:", hist)
        for k, v in outs.items():
            print(k, "balances:", v["bal"], "loans:", v["loans"])
        return ["results depend on the order of the random ids"] if any(v != outs["asc"] for v in outs.values()) else []
    if rep.get("kind") == "hashseed":
        res = run_scenario(("hashseed", rep["seed"], rep["tier"]), rep["tier"])
        return [v["message"] for v in res.violations]
    base = _unj(rep["base"])
    msgs = []
    print("scenario:", base)
    if rep["kind"] == "c1":
        r = make_run(base, rep["maxc"])(Chooser(rep["choices"]))
        print(f"max_concurrent={rep['maxc']} choices={rep['choices']}")
        print("  placements (index, submitted at, via):", r["placements"], "rejected:", r["rejected"])
        print("  fills (order, when, base, quote):", r["hist"])
        if r["look"]:
            msgs.append(f"look-ahead: {r['look']}")
        if r["out"] != "returned":
            msgs.append(r["out"])
    else:
        obs = {}
        for maxc in MAXCS:
            r = make_run(base, maxc)(Chooser([]))
            obs[maxc] = observable(r)
            print(f"max_concurrent={maxc}: fills={r['hist']} balances={r['bal']} rejected={r['rejected']}")
        if len(set(obs.values())) > 1:
            msgs.append("results depend on max_concurrent")
    return msgs

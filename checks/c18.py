"""C18 - websocket channels stay subscribed across faults and route correctly (DESIGN.md section 4, C18).

The real websocket clients (a minimal generic subclass of core WebSocketClient, Binance reached through the real
Exchange / WebsocketManager / account objects under a real RealtimeDispatcher so that keep-alive jobs really run, Bitstamp
public and private) with an injected fake session on the virtual loop, virtual time module / utc_now. The environment is a
sequence of server behaviours and client-side registrations, explored exhaustively up to a depth; the fake server acts only
at client-quiescent points.

Binance families: `binance` (public trade stream + SPOT user-data stream, full alphabet), `binance-cross` and
`binance-isolated` (the cross-margin / isolated-margin user-data stream, the part of the alphabet that matters to a
user-data stream), `binance-two` (spot AND cross-margin user-data streams on the one shared client from the start, an
isolated-margin one registered later; messages and listen-key expiry per stream). In these three families `expired_late` is
a listen-key expiry followed, 0.03 s later and only while no replacement key has been subscribed yet (i.e. the reply to the
listen-key creation is slow), by one more user-data message on the expired stream. The fake server records which endpoint
(and symbol) issued each listen key and which key / endpoint / symbol each keep-alive PUT names.
"""
import asyncio
import collections
import datetime
import itertools
import json

import basana as bs
from basana.core import dt as bdt
from basana.core import websockets as cws

from mc.framework import Result, h64
from mc.vloop import VLoop, Deadlock, Horizon, StepCap, Livelock
from mc.vtime import VirtualTime
from worlds.ws import Env, FakeSession

PROPERTY = "C18"
RULE = ("case = (client family, sequence of environment actions: channel message, message for an unknown channel, garbage "
        "text, binary frame, subscription ack / error, reconnect request, clean close, abrupt drop, listen-key expiry (per "
        "user-data stream; also followed by one more message on the expired stream while its replacement is pending), next connect fails, next HTTP call (listen key / token) fails, next HTTP call or next send is "
        "slow, register a new channel / a further user-data stream, let time pass, let more than the validity of a Bitstamp "
        "websocket token pass); every sequence up to the depth is "
        "executed on the real client. Distinct = distinct cases; non-trivial = more than one connection was made or a "
        "channel was registered / re-subscribed while connected.")
ASSUMPTIONS = [
    "fake aiohttp session (ws_connect / post / put) on a virtual event loop; the `time` attribute of basana.core.websockets "
    "is a proxy of the time module whose clocks all read the virtual clock, and utc_now is virtual; actions are 0.06 "
    "virtual s apart, back-off 0.05 s, keep-alive period 0.2 s",
    "the fake server acts only at client-quiescent points; a connection that dies before the client's first step owes no "
    "SUBSCRIBE; the server publishes user data only on a listen key that is subscribed on the live connection",
    "bounded liveness: after the last action a fault-free suffix of 0.6 s must converge to 'all channels subscribed'; after "
    "a server-requested reconnect a new connection attempt must follow within 0.24 s and, when no scripted fault is "
    "pending, a new connection with every channel subscribed",
    "a listen key is valid from its creation until the server declares it expired; as documented by Binance, a POST to an "
    "endpoint that has a valid key returns that key and extends it (it counts as a refresh); a user-data stream counts as subscribed "
    "when a valid key of its own endpoint (and symbol) is in a SUBSCRIBE frame of the live connection; a keep-alive counts "
    "for a key only if it names that key and goes to the endpoint (and symbol) that issued it; keep-alive gaps are measured "
    "per key, from the SUBSCRIBE frame until the connection goes down, the key expires or the run ends; tolerance one poll "
    "period (+ the scripted HTTP slowness)",
    "a client may give a connection up only after the server closed / dropped it, asked for a reconnection, sent a malformed, "
    "unknown or error message on it, or after a scripted HTTP failure during its lifetime; channel messages, acks, listen-key "
    "expiry, registrations, slow replies and the passing of time are no reason (after listenKeyExpired, with no HTTP failure "
    "pending, the SAME connection must carry the new SUBSCRIBE within 0.24 s)",
    "a real server can still publish a message that was in flight on a stream whose key it has just declared expired, until "
    "the replacement is subscribed: that is no reason to give the connection up; whether such a message is forwarded as an "
    "event is left open",
    "bitstamp-private: the fake REST endpoint issues websocket tokens that are valid for 60 virtual s; a private "
    "bts:subscribe carrying an older (or unknown) token is answered with bts:error and does not count as a subscription; "
    "`long_wait` lets 61 s pass on whatever connection is up",
    "whether the listenKeyExpired notice itself is forwarded to the user-data event source is left open by the statement: "
    "both are accepted",
]
BOUNDS = {"quick": dict(depth={"generic": 4, "binance": 4, "binance-cross": 4, "binance-isolated": 4, "binance-two": 4,
                               "bitstamp-public": 4, "bitstamp-private": 4}),
          "thorough": dict(depth={"generic": 5, "binance": 5, "binance-cross": 5, "binance-isolated": 5, "binance-two": 5,
                                  "bitstamp-public": 5, "bitstamp-private": 5})}
EXPLANATION = ("exhaustive environment-sequence exploration of the real clients on a virtual loop; every case is an "
               "implementation run")
EPOCH = datetime.datetime(2020, 1, 1, tzinfo=datetime.timezone.utc)
KA = 0.2
BACKOFF = 0.05
STEP = 0.06
TOKEN_VALID = 60.0  # Bitstamp: validity of a websocket auth token in seconds (valid_sec in the token reply)
PB = bs.Pair("BTC", "USDT")
PS = bs.Pair("BTC", "USD")
# user-data streams: endpoint (and symbol) that issues and refreshes the listen key, from Binance's API documentation
ISSUER = {"spot": ("/api/v3/userDataStream", None), "cross": ("/sapi/v1/userDataStream", None),
          "isolated": ("/sapi/v1/userDataStream/isolated", "BTCUSDT")}
USER_STREAMS = {"binance": {"user": "spot"}, "binance-cross": {"user": "cross"}, "binance-isolated": {"user": "isolated"},
                "binance-two": {"user": "spot", "user2": "cross"}}

# server behaviours after which giving the connection up (and reconnecting) is a legitimate reaction of a client
MAY_END_CONNECTION = {"close", "drop", "garbage", "binary", "reconnect_req", "unknown_channel", "unknown_stream", "unknown_event",
                      "sub_error", "bts_error", "sub_failed"}

ACTIONS = {
    "generic": ["tick", "msg_a", "msg_b", "unknown_channel", "garbage", "binary", "reconnect_req", "resub_a", "close", "drop",
                "fail_connect", "slow_send", "add_channel"],
    "binance": ["tick", "msg_trade", "msg_user", "expired", "garbage", "unknown_stream", "ack", "sub_error", "close", "drop",
                "fail_connect", "fail_http", "slow_http", "add_channel"],
    "binance-cross": ["tick", "msg_user", "expired", "expired_late", "close", "drop", "fail_connect", "fail_http", "slow_http", "add_channel"],
    "binance-isolated": ["tick", "msg_user", "expired", "expired_late", "close", "drop", "fail_connect", "fail_http", "slow_http", "add_channel"],
    "binance-two": ["tick", "msg_user", "msg_user2", "expired", "expired_late", "expired2", "add_user3", "close", "drop", "fail_http", "slow_http"],
    "bitstamp-public": ["tick", "msg_trades", "msg_trades2", "msg_orders", "reconnect_req", "bts_error", "sub_failed", "garbage", "unknown_event",
                        "close", "drop", "fail_connect", "slow_send", "add_channel"],
    "bitstamp-private": ["tick", "msg_trades", "msg_trades2", "msg_orders", "reconnect_req", "sub_failed", "garbage", "close", "drop",
                         "fail_connect", "fail_http", "slow_http", "add_channel", "long_wait"],
}


def scenarios(tier, seed):
    out = []
    for fam, acts in ACTIONS.items():
        depth = BOUNDS[tier]["depth"][fam]
        # shard by the first two actions
        out.append((fam, depth, ()))
        for a in acts:
            out.append((fam, depth, (a,)))
            if depth >= 2:
                for b in acts:
                    out.append((fam, depth, (a, b, "*")))
    return out


# ---- generic client ------------------------------------------------------------------------------------------------
class GenericSource(cws.ChannelEventSource):
    def __init__(self, producer, name):
        super().__init__(producer)
        self.name = name

    async def push_from_message(self, message):
        self.push(bs.Event(bdt.utc_now()))


class GenericClient(cws.WebSocketClient):
    async def subscribe_to_channels(self, channels, ws_cli):
        await ws_cli.send_str(json.dumps({"subscribe": sorted(channels)}))

    async def handle_message(self, message):
        if message.get("reconnect"):
            self.schedule_reconnection()
            return True
        if message.get("resub"):
            self.schedule_resubscription([message["resub"]])
            return True
        ch = message.get("channel")
        src = self.get_channel_event_source(ch) if ch else None
        if src is not None:
            await src.push_from_message(message)
            return True
        return False


def run_case(fam, actions):
    """Runs one environment sequence. Returns dict(problems=[(clause, detail)], conns, ...)."""
    loop = VLoop()
    env = Env(loop)
    saved_now = bdt.utc_now
    patched = []
    bdt.utc_now = lambda: EPOCH + datetime.timedelta(seconds=loop.time())
    vt = VirtualTime(lambda: 1e9 + loop.time())
    if getattr(cws, "time", None) is not None:  # a module that stops using `time` is left alone
        patched.append((cws, cws.time))
        cws.time = vt
    problems = []
    got = collections.Counter()       # events popped per source name
    sent_msgs = collections.Counter()  # channel messages delivered per source name
    interesting = [False]
    binance = fam.startswith("binance")
    try:
        sess = FakeSession(env)
        d = None
        sources = {}  # name -> source (non-dispatcher families) / True (Binance: events are counted by the handlers)
        users = {}    # Binance: user-data stream name -> issuer (endpoint path, symbol)
        public = set()  # Binance: public stream names registered so far
        if fam == "generic":
            cli = GenericClient("ws://fake", session=sess)
            for name in ("a", "b"):
                src = GenericSource(cli, name)
                cli.set_channel_event_source(name, src)
                sources[name] = src

            def subscribed(ws):
                s = set()
                for _, m in ws.sent:
                    s.update(m.get("subscribe", []))
                return s

            def missing(ws):
                return sorted(set(cli._event_sources) - subscribed(ws))
        elif binance:
            from basana.external.binance import exchange as bx, trades
            from basana.external.binance import websockets as bws
            if getattr(bws, "time", None) is not None:
                patched.append((bws, bws.time))
                bws.time = vt
            d = bs.realtime_dispatcher(max_concurrent=5)
            d.idle_sleep = 0.01
            uds = {"user_data_stream": {"heartbeat": KA}}
            cfg = {"api": {"websockets": {"spot": uds, "cross_margin": uds, "isolated_margin": uds}}}
            ex = bx.Exchange(d, "k", "s", session=sess, config_overrides=cfg)

            def handler(name):
                async def h(ev):
                    got[name] += 1
                return h

            def register_user(name, kind):
                if kind == "spot":
                    ex.spot_account.subscribe_to_user_data_events(handler(name))
                elif kind == "cross":
                    ex.cross_margin_account.subscribe_to_user_data_events(handler(name))
                else:
                    ex.isolated_margin_account.subscribe_to_user_data_events(PB, handler(name))
                users[name] = ISSUER[kind]
                sources[name] = True

            ex.subscribe_to_trade_events(PB, handler("trade"))
            sources["trade"] = True
            tstream = trades.get_channel(PB)
            public.add(tstream)
            for name, kind in USER_STREAMS[fam].items():
                register_user(name, kind)
            cli = ex._ws_mgr._get_ws_client()  # the one shared client (only to set the back-off used by the scenario)

            def subscribed(ws):
                s = set()
                for _, m in ws.sent:
                    if m.get("method") == "SUBSCRIBE":
                        s.update(m["params"])
                return s

            def valid_keys(name):
                return [k for k, own in env.key_owner.items() if own == users[name] and k not in env.expired_at]

            def live_key(ws, name):
                """The valid listen key of that user-data stream that is subscribed on this connection, if any."""
                have = subscribed(ws)
                keys = [k for k in valid_keys(name) if k in have]
                return keys[-1] if keys else None

            def missing(ws):
                have = subscribed(ws)
                out = sorted(public - have)
                out += [f"{name} (no valid listen key of {users[name]} subscribed)" for name in users if live_key(ws, name) is None]
                return out
        else:
            from basana.external.bitstamp import websockets as sws, trades as strades, orders as sorders, order_book as sbook
            private = fam == "bitstamp-private"
            if private:
                env.token_valid_sec = TOKEN_VALID  # websocket auth tokens expire, as Bitstamp's do
            cli = sws.PrivateWebSocketClient("k", "s", session=sess) if private else sws.PublicWebSocketClient(session=sess)
            chans = {}
            if private:
                chans["trades"] = strades.get_private_channel(PS)
                chans["orders"] = sorders.get_private_channel(PS)
            else:
                chans["trades"] = strades.get_public_channel(PS)
                chans["orders"] = sorders.get_public_channel(PS)
            # a second pair whose channel name EXTENDS the first one's (live_trades_btcusd / live_trades_btcusdc)
            PS2 = bs.Pair("BTC", "USDC")
            chans["trades2"] = strades.get_private_channel(PS2) if private else strades.get_public_channel(PS2)
            sources["trades"] = strades.WebSocketEventSource(PS, cli)
            sources["orders"] = sorders.WebSocketEventSource(PS, cli)
            sources["trades2"] = strades.WebSocketEventSource(PS2, cli)
            for name in ("trades", "orders", "trades2"):
                cli.set_channel_event_source(chans[name], sources[name])

            def subscribed(ws):
                s = set()
                for _, m in ws.sent:
                    if m.get("event") == "bts:subscribe":
                        s.add(m["data"]["channel"])
                        if private and "auth" not in m["data"]:
                            problems.append(("no-auth", "private subscription without auth token"))
                return s

            def missing(ws):
                return sorted({(f"{c}-77" if private else c) for c in cli._event_sources} - subscribed(ws))
        cli.backoff_secs = BACKOFF

        def check(tag):
            ws = env.live()
            if ws is None:
                problems.append(("not-connected", f"{tag}: no live connection after the fault-free suffix"))
                return
            miss = missing(ws)
            if miss:
                problems.append(("channel-not-subscribed", f"{tag}: {miss} not subscribed on live connection "
                                 f"#{ws.idx} (subscribed: {sorted(subscribed(ws))})"))

        async def after_reconnect_request(ws):
            """A server-requested reconnect must lead to a new connection, with every channel subscribed, in bounded time."""
            interesting[0] = True
            n_attempts, idx = len(env.connect_times), ws.idx
            faults = env.fail_next_connect or env.fail_next_http or env.http_delay or env.send_delay
            await asyncio.sleep(4 * STEP)  # back-off + longer than any scripted slowness
            if len(env.connect_times) <= n_attempts:
                problems.append(("no-reconnection", "the server asked for a reconnection: no new connection attempt within "
                                 f"{4 * STEP:.2f}s"))
            elif not faults:
                w2 = env.live()
                if w2 is None or w2.idx <= idx:
                    problems.append(("no-reconnection", "the server asked for a reconnection: no new connection is up after "
                                     f"{4 * STEP:.2f}s"))
                elif missing(w2):
                    problems.append(("channel-not-subscribed", f"after the requested reconnection: {missing(w2)} not subscribed "
                                     f"on connection #{w2.idx}"))

        trade = {"id": 1, "amount_str": "1", "price_str": "2", "type": 0, "microtimestamp": "1577836800000000",
                 "buy_order_id": 1, "sell_order_id": 2, "amount": 1, "price": 2}
        order = {"id": 1, "order_type": 1, "microtimestamp": "1577836800000000", "amount_str": "0.5", "amount_at_create": "1.5",
                 "price_str": "3", "amount": 0.5, "price": 3}

        causes = []  # (connection index, action): server behaviours after which a client may give a connection up

        async def driver():
            await asyncio.sleep(2 * STEP)
            for a in actions:
                ws = env.live()
                if ws is not None and a in MAY_END_CONNECTION:
                    causes.append((ws.idx, a))
                if a == "tick":
                    pass
                elif a == "long_wait":
                    await asyncio.sleep(TOKEN_VALID + 1)  # longer than the validity of a websocket auth token
                elif a == "fail_connect":
                    env.fail_next_connect = True
                elif a == "fail_http":
                    env.fail_next_http = True
                elif a == "slow_http":
                    env.http_delay = 1.5 * STEP
                elif a == "slow_send":
                    env.send_delay = 1.5 * STEP
                elif a == "add_channel":
                    interesting[0] = interesting[0] or ws is not None
                    if fam == "generic":
                        if "c" not in cli._event_sources:
                            sources["c"] = GenericSource(cli, "c")
                            cli.set_channel_event_source("c", sources["c"])
                    elif binance:
                        # the dispatcher does not accept subscriptions while running: late channels are registered on the
                        # websocket client itself
                        if "ethusdt@trade" not in public:
                            cli.set_channel_event_source_ex(bws.PublicChannel("ethusdt@trade"),
                                                            trades.WebSocketEventSource(bs.Pair("ETH", "USDT"), cli))
                            public.add("ethusdt@trade")
                    else:
                        c = sbook.get_channel(PS)
                        if c not in cli._event_sources:
                            cli.set_channel_event_source(c, sbook.WebSocketEventSource(PS, cli))
                elif a == "add_user3":
                    interesting[0] = interesting[0] or ws is not None
                    if "user3" not in users:
                        from basana.external.binance import isolated_margin, user_data
                        cli.set_channel_event_source_ex(isolated_margin.IsolatedMarginUserDataChannel(PB),
                                                        user_data.WebSocketEventSource(cli))
                        users["user3"] = ISSUER["isolated"]
                elif ws is None:
                    pass
                elif fam == "generic":
                    if a in ("msg_a", "msg_b"):
                        ws.deliver("text", json.dumps({"channel": a[-1], "data": 1}))
                        sent_msgs[a[-1]] += 1
                    elif a == "unknown_channel":
                        ws.deliver("text", json.dumps({"channel": "zzz", "data": 1}))
                    elif a == "reconnect_req":
                        ws.deliver("text", json.dumps({"reconnect": True}))
                        await after_reconnect_request(ws)
                        continue
                    elif a == "resub_a":
                        interesting[0] = True
                        n_before, idx, n_causes = len(ws.sent), ws.idx, len(causes)
                        ws.deliver("text", json.dumps({"resub": "a"}))
                        await asyncio.sleep(4 * STEP)  # longer than any scripted slowness, also one already in flight
                        w2 = env.live()
                        if (w2 is None or w2.idx != idx) and not (env.fail_next_connect or n_causes != len(causes)):
                            problems.append(("no-resubscription-on-live-connection", f"after the re-subscription flag connection "
                                             f"#{idx} did not survive although the server did not close it"))
                        elif w2 is not None and w2.idx == idx and not any("a" in m.get("subscribe", []) for _, m in ws.sent[n_before:]):
                            problems.append(("no-resubscription-on-live-connection", "channel flagged for re-subscription was not "
                                             "re-subscribed on the live connection"))
                        continue
                elif binance:
                    uname = {"msg_user": "user", "msg_user2": "user2", "expired": "user", "expired2": "user2",
                             "expired_late": "user"}.get(a)
                    if a == "msg_trade":
                        ws.deliver("text", json.dumps({"stream": tstream, "data": {"e": "trade", "E": 1, "s": "BTCUSDT", "t": 1,
                                                                                   "p": "1", "q": "1", "b": 1, "a": 2, "T": 1, "m": True}}))
                        sent_msgs["trade"] += 1
                    elif a in ("msg_user", "msg_user2"):
                        key = live_key(ws, uname)
                        if key:  # the server publishes user data only on a key that is subscribed on this connection
                            ws.deliver("text", json.dumps({"stream": key, "data": {"e": "outboundAccountPosition", "E": 1, "u": 1, "B": []}}))
                            sent_msgs[uname] += 1
                    elif a in ("expired", "expired2", "expired_late"):
                        key = live_key(ws, uname)
                        if key:
                            interesting[0] = True
                            n_before, idx = len(ws.sent), ws.idx
                            failing = env.fail_next_http
                            env.expired_at[key] = loop.time()
                            ws.deliver("text", json.dumps({"stream": key, "data": {"e": "listenKeyExpired", "E": 1}}))
                            # whether the administrative notice is forwarded as a user-data event is left open
                            sent_msgs[uname + "-maybe"] += 1
                            waited = 0.0
                            if a == "expired_late":
                                # a message that was already in flight: one more user-data message on the expired stream while
                                # the reply to the listen-key creation it triggered is still pending (slow HTTP)
                                waited = 0.5 * STEP
                                await asyncio.sleep(waited)
                                replaced = any(env.key_owner.get(k) == users[uname] and k not in env.expired_at
                                               for _, m in ws.sent[n_before:] if m.get("method") == "SUBSCRIBE" for k in m["params"])
                                if env.live() is ws and not replaced:
                                    ws.deliver("text", json.dumps({"stream": key, "data": {"e": "outboundAccountPosition", "E": 1,
                                                                                           "u": 1, "B": []}}))
                                    # data on a key the server has declared expired: forwarding it is left open
                                    sent_msgs[uname + "-maybe"] += 1
                            await asyncio.sleep(4 * STEP - waited)
                            w2 = env.live()
                            if not failing and (w2 is None or w2.idx != idx):
                                # nothing was scripted between the notice and now: the connection the notice arrived on
                                # must still be the live one
                                problems.append(("no-resubscription-on-live-connection", f"stream {uname!r}: after listenKeyExpired "
                                                 f"connection #{idx} did not survive (closed at {ws.t_closed}, live now: "
                                                 f"{'none' if w2 is None else '#%d' % w2.idx}) although the server did not close it; "
                                                 f"SUBSCRIBE frames on it after the notice: "
                                                 f"{[m.get('params') for _, m in ws.sent[n_before:] if m.get('method') == 'SUBSCRIBE']}"))
                            elif w2 is not None and w2.idx == idx and not failing:
                                new = set()
                                for _, m in ws.sent[n_before:]:
                                    if m.get("method") == "SUBSCRIBE":
                                        new.update(m["params"])
                                own = [k for k in new if env.key_owner.get(k) == users[uname]]
                                if any(k not in env.expired_at for k in own):
                                    pass
                                elif own or key in new:
                                    problems.append(("stale-listen-key", f"stream {uname!r}: re-subscribed with the expired listen key "
                                                     f"({sorted(own) or key})"))
                                else:
                                    problems.append(("no-resubscription-on-live-connection", f"stream {uname!r}: the expired listen "
                                                     f"key was not replaced and re-subscribed on the live connection (new SUBSCRIBE "
                                                     f"params: {sorted(new)})"))
                            continue
                    elif a == "ack":
                        ws.deliver("text", json.dumps({"result": None, "id": 1}))
                    elif a == "sub_error":
                        ws.deliver("text", json.dumps({"result": {"code": 2, "msg": "bad"}, "id": 1}))
                    elif a == "unknown_stream":
                        ws.deliver("text", json.dumps({"stream": "nope@trade", "data": {}}))
                else:
                    if a == "msg_trades":
                        ws.deliver("text", json.dumps({"event": "trade", "channel": chans["trades"], "data": trade}))
                        sent_msgs["trades"] += 1
                    elif a == "msg_trades2":
                        ws.deliver("text", json.dumps({"event": "trade", "channel": chans["trades2"], "data": trade}))
                        sent_msgs["trades2"] += 1
                    elif a == "msg_orders":
                        ws.deliver("text", json.dumps({"event": "order_created", "channel": chans["orders"], "data": order}))
                        sent_msgs["orders"] += 1
                    elif a == "reconnect_req":
                        ws.deliver("text", json.dumps({"event": "bts:request_reconnect", "channel": "", "data": ""}))
                        await after_reconnect_request(ws)
                        continue
                    elif a == "bts_error":
                        ws.deliver("text", json.dumps({"event": "bts:error", "data": {"code": 1}}))
                    elif a == "sub_failed":
                        ws.deliver("text", json.dumps({"event": "bts:subscription_failed", "channel": chans["trades"]}))
                    elif a == "unknown_event":
                        ws.deliver("text", json.dumps({"event": "whatever", "channel": chans["trades"], "data": {}}))
                if ws is not None:
                    if a == "garbage":
                        ws.deliver("text", "{not json")
                    elif a == "binary":
                        ws.deliver("binary", b"\x00\x01")
                    elif a == "close":
                        ws.deliver("close")
                    elif a == "drop":
                        ws.deliver("drop")
                await asyncio.sleep(STEP)
            await asyncio.sleep(10 * STEP)  # fault-free suffix
            check("end")
            env.end_time = loop.time()
            if d is not None:
                d.stop()
            else:
                holder["main"].cancel()

        holder = {}

        async def main():
            if d is not None:
                await asyncio.gather(d.run(stop_signals=[]), driver())
            else:
                holder["main"] = asyncio.ensure_future(cli.main())
                await driver()
                try:
                    await holder["main"]
                except asyncio.CancelledError:
                    pass
        out = "ok"
        try:
            t = loop.run(main(), horizon=30.0 + (TOKEN_VALID + 1) * len(actions), max_steps=400000)
            if t.exception() is not None:
                out = "raised:" + repr(t.exception())[:80]
        except (Deadlock, Horizon, StepCap, Livelock) as e:
            out = type(e).__name__
        finally:
            loop.shutdown()
        if out != "ok":
            problems.append(("run-outcome", out))
        # routing (non-dispatcher families: pop what the sources hold)
        if d is None:
            for name, src in sources.items():
                while src.pop() is not None:
                    got[name] += 1
        for name in sources:
            lo = sent_msgs[name]
            hi = lo + sent_msgs[name + "-maybe"]
            if not lo <= got[name] <= hi:
                problems.append(("routing", f"source {name!r} produced {got[name]} events for {lo}..{hi} messages of its channel"))
        # the client does not give up a connection on its own: every connection that went down before the end of the run was
        # closed / dropped by the server, or received a behaviour after which reconnecting is a legitimate reaction (reconnect
        # request, malformed / unknown / error message), or a scripted HTTP failure (listen key, token) fell into its lifetime
        end_t = getattr(env, "end_time", None)
        for ws in env.conns:
            if ws.t_closed is None or (end_t is not None and ws.t_closed >= end_t):
                continue
            if any(i == ws.idx for i, _ in causes) or any(ws.t_open <= t <= ws.t_closed for t in env.http_fail_times):
                continue
            problems.append(("connection-given-up", f"connection #{ws.idx} (opened {ws.t_open:.3f}) went down at {ws.t_closed:.3f} "
                             f"although the environment did nothing to it that calls for a reconnection"))
        # back-off
        for a, b in zip(env.connect_times, env.connect_times[1:]):
            if b - a < BACKOFF - 1e-9:
                problems.append(("backoff", f"connection attempts at {a:.3f} and {b:.3f}, {b - a:.3f}s apart (< {BACKOFF})"))
        # keep-alive, per listen key: while its stream is subscribed (from the SUBSCRIBE frame naming it until the connection
        # goes down, the key expires or the run ends) the key must be refreshed - at the endpoint (and symbol) that issued it
        # - at least once per period
        if binance:
            end = getattr(env, "end_time", loop.time())
            # tolerance: one poll period of the dispatcher + the scripted slowness / failure of an HTTP call
            # (every scripted slow HTTP call delays one request by 1.5 steps, and several of them can fall into ONE gap - a
            # keep-alive PUT of the old key still in flight when the key is replaced, then the slow PUT of the new key: the
            # latency the harness itself injects is never charged to the client)
            tol = 0.05 + 1.5 * STEP * sum(1 for x in actions if x == "slow_http") + (2 * STEP if "fail_http" in actions else 0)
            tol = max(tol, 0.05 + (2 * STEP if any(x in actions for x in ("slow_http", "fail_http")) else 0))
            for key, issuer in env.key_owner.items():
                for ws in env.conns:
                    t_sub = next((t for t, m in ws.sent if m.get("method") == "SUBSCRIBE" and key in m.get("params", [])), None)
                    if t_sub is None:
                        continue
                    t_end = min(x for x in (ws.t_closed, env.expired_at.get(key), end) if x is not None)
                    if t_end <= t_sub:
                        continue
                    # refreshes and refresh attempts that the harness made fail
                    ref = sorted(t for (t, kind, k, path, sym) in env.key_events if kind in ("keepalive", "failed-PUT", "create") and k == key
                                 and (path, sym) == issuer and t_sub <= t <= t_end)
                    pts = [t_sub] + ref + [t_end]
                    gap = max(b - a for a, b in zip(pts, pts[1:]))
                    if gap > KA + tol:
                        others = [(round(t, 3), kind, k, path, sym) for (t, kind, k, path, sym) in env.key_events
                                  if kind != "create" and t_sub <= t <= t_end and not (k == key and (path, sym) == issuer)]
                        problems.append(("keep-alive-gap", f"listen key {key} issued by {issuer} was subscribed on connection "
                                         f"#{ws.idx} from {t_sub:.3f} to {t_end:.3f} and not refreshed for {gap:.3f}s (period {KA}s); "
                                         f"its refreshes: {[round(t, 3) for t in ref]}; other keep-alive calls meanwhile: {others[:6]}"))
    finally:
        bdt.utc_now = saved_now
        for m, t in patched:
            m.time = t
    return dict(problems=problems, conns=len(env.conns), interesting=interesting[0] or len(env.conns) > 1)


def run_scenario(sc, tier):
    res = Result()
    fam, depth, prefix = sc
    acts = ACTIONS[fam]
    if prefix and prefix[-1] == "*":
        base = prefix[:-1]
        seqs = (base + tail for n in range(1, depth - len(base) + 1) for tail in itertools.product(acts, repeat=n))
    else:
        seqs = [prefix]
    for seq in seqs:
        r = run_case(fam, seq)
        res.executions += 1
        res.transitions += len(seq) + 1
        res.validated += 1
        key = h64((fam, seq))
        res.states.add(key)
        if r["interesting"]:
            res.nontrivial.add(key)
        res.outcomes[f"{fam}:{min(r['conns'], 3)} connections"] += 1
        case = dict(family=fam, actions=list(seq))
        if not res.samples and r["conns"] > 1:
            res.samples.append(case)
        for clause, detail in r["problems"]:
            res.violation(f"{PROPERTY}:{clause}:{fam}", f"{detail}; {case}", case, size=len(seq))
    return res


def replay(rep):
    r = run_case(rep["family"], tuple(rep["actions"]))
    print("case:", rep, "connections:", r["conns"])
    return [f"{c}: {d}" for c, d in r["problems"]]

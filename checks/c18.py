"""C18 - websocket channels stay subscribed across faults and route correctly (DESIGN.md section 4, C18).

The real websocket clients (a minimal generic subclass of core WebSocketClient, Binance with a real RealtimeDispatcher so
that keep-alive jobs really run, Bitstamp public and private) with an injected fake session on the virtual loop, virtual
time.time / utc_now. The environment is a sequence of server behaviours and client-side registrations, explored
exhaustively up to a depth; the fake server acts only at client-quiescent points.
"""
import asyncio
import collections
import datetime
import itertools
import json
import types

import basana as bs
from basana.core import dt as bdt
from basana.core import websockets as cws

from mc.framework import Result, h64
from mc.vloop import VLoop, Deadlock, Horizon, StepCap, Livelock
from worlds.ws import Env, FakeSession

PROPERTY = "C18"
RULE = ("case = (client family, sequence of environment actions: channel message, message for an unknown channel, garbage "
        "text, binary frame, subscription ack / error, reconnect request, clean close, abrupt drop, listen-key expiry, next "
        "connect fails, next HTTP call (listen key / token) fails, next HTTP call or next send is slow, register a new "
        "channel, let time pass); every sequence up to the depth is executed on the real client. Distinct = distinct "
        "cases; non-trivial = more than one connection was made or a channel was registered / re-subscribed while connected.")
ASSUMPTIONS = [
    "fake aiohttp session (ws_connect / post / put) on a virtual event loop; virtual time.time for basana.core.websockets "
    "and a virtual utc_now; actions are 0.06 virtual s apart, back-off 0.05 s, keep-alive period 0.2 s",
    "the fake server acts only at client-quiescent points; a connection that dies before the client's first step owes no "
    "SUBSCRIBE",
    "bounded liveness: after the last action a fault-free suffix of 0.6 s must converge to 'all channels subscribed'",
]
BOUNDS = {"quick": dict(depth={"generic": 4, "binance": 4, "bitstamp-public": 4, "bitstamp-private": 4}),
          "thorough": dict(depth={"generic": 5, "binance": 5, "bitstamp-public": 5, "bitstamp-private": 5})}
EXPLANATION = ("exhaustive environment-sequence exploration of the real clients on a virtual loop; every case is an "
               "implementation run")
EPOCH = datetime.datetime(2020, 1, 1, tzinfo=datetime.timezone.utc)
KA = 0.2
BACKOFF = 0.05
STEP = 0.06
PB = bs.Pair("BTC", "USDT")
PS = bs.Pair("BTC", "USD")

ACTIONS = {
    "generic": ["tick", "msg_a", "msg_b", "unknown_channel", "garbage", "binary", "reconnect_req", "resub_a", "close", "drop",
                "fail_connect", "slow_send", "add_channel"],
    "binance": ["tick", "msg_trade", "msg_user", "expired", "garbage", "unknown_stream", "ack", "sub_error", "close", "drop",
                "fail_connect", "fail_http", "slow_http", "add_channel"],
    "bitstamp-public": ["tick", "msg_trades", "msg_trades2", "msg_orders", "reconnect_req", "bts_error", "sub_failed", "garbage", "unknown_event",
                        "close", "drop", "fail_connect", "slow_send", "add_channel"],
    "bitstamp-private": ["tick", "msg_trades", "msg_trades2", "msg_orders", "reconnect_req", "sub_failed", "garbage", "close", "drop",
                         "fail_connect", "fail_http", "slow_http", "add_channel"],
}


def scenarios(tier, seed):
    out = []
    for fam, acts in ACTIONS.items():
        depth = BOUNDS[tier]["depth"][fam]
        # shard by the first two actions
        out.append((fam, depth, ()))
        for a in acts:
            out.append((fam, depth, (a,)))
            if depth >= 2:
                for b in acts:
                    out.append((fam, depth, (a, b, "*")))
    return out


# ---- generic client ------------------------------------------------------------------------------------------------
class GenericSource(cws.ChannelEventSource):
    def __init__(self, producer, name):
        super().__init__(producer)
        self.name = name

    async def push_from_message(self, message):
        self.push(bs.Event(bdt.utc_now()))


class GenericClient(cws.WebSocketClient):
    async def subscribe_to_channels(self, channels, ws_cli):
        await ws_cli.send_str(json.dumps({"subscribe": sorted(channels)}))

    async def handle_message(self, message):
        if message.get("reconnect"):
            self.schedule_reconnection()
            return True
        if message.get("resub"):
            self.schedule_resubscription([message["resub"]])
            return True
        ch = message.get("channel")
        src = self.get_channel_event_source(ch) if ch else None
        if src is not None:
            await src.push_from_message(message)
            return True
        return False


def run_case(fam, actions):
    """Runs one environment sequence. Returns dict(problems=[(clause, detail)], conns, ...)."""
    loop = VLoop()
    env = Env(loop)
    saved_now = bdt.utc_now
    saved_time = cws.time
    bdt.utc_now = lambda: EPOCH + datetime.timedelta(seconds=loop.time())
    cws.time = types.SimpleNamespace(time=lambda: 1e9 + loop.time())
    problems = []
    got = collections.Counter()       # events popped per source name
    sent_msgs = collections.Counter()  # channel messages delivered per source name
    interesting = [False]
    try:
        sess = FakeSession(env)
        d = None
        sources = {}  # name -> (channel key on the wire as the oracle sees it, source)
        if fam == "generic":
            cli = GenericClient("ws://fake", session=sess)
            for name in ("a", "b"):
                src = GenericSource(cli, name)
                cli.set_channel_event_source(name, src)
                sources[name] = src

            def wanted():
                return set(cli._event_sources)

            def subscribed(ws):
                s = set()
                for _, m in ws.sent:
                    s.update(m.get("subscribe", []))
                return s
        elif fam == "binance":
            from basana.external.binance import websockets as bws, spot, user_data, trades, client as bcli
            d = bs.realtime_dispatcher(max_concurrent=5)
            d.idle_sleep = 0.01
            cfg = {"api": {"websockets": {"spot": {"user_data_stream": {"heartbeat": KA}}}}}
            api = bcli.APIClient("k", "s", session=sess)
            cli = bws.WebSocketClient(d, api, session=sess, config_overrides=cfg)
            tchan = bws.PublicChannel(trades.get_channel(PB))
            uchan = spot.SpotUserDataChannel()
            for name, ch, src in (("trade", tchan, trades.WebSocketEventSource(PB, cli)), ("user", uchan, user_data.WebSocketEventSource(cli))):
                cli.set_channel_event_source_ex(ch, src)
                sources[name] = src

                async def h(ev, name=name):
                    got[name] += 1
                d.subscribe(src, h)

            def wanted():
                w = set()
                for alias, ch in cli._alias_to_channel.items():
                    try:
                        w.add(ch.stream)
                    except AssertionError:
                        w.add("<unresolved:%s>" % alias)
                return w

            def subscribed(ws):
                s = set()
                for _, m in ws.sent:
                    if m.get("method") == "SUBSCRIBE":
                        s.update(m["params"])
                return s
        else:
            from basana.external.bitstamp import websockets as sws, trades as strades, orders as sorders, order_book as sbook
            private = fam == "bitstamp-private"
            cli = sws.PrivateWebSocketClient("k", "s", session=sess) if private else sws.PublicWebSocketClient(session=sess)
            chans = {}
            if private:
                chans["trades"] = strades.get_private_channel(PS)
                chans["orders"] = sorders.get_private_channel(PS)
            else:
                chans["trades"] = strades.get_public_channel(PS)
                chans["orders"] = sorders.get_public_channel(PS)
            # a second pair whose channel name EXTENDS the first one's (live_trades_btcusd / live_trades_btcusdc)
            PS2 = bs.Pair("BTC", "USDC")
            chans["trades2"] = strades.get_private_channel(PS2) if private else strades.get_public_channel(PS2)
            sources["trades"] = strades.WebSocketEventSource(PS, cli)
            sources["orders"] = sorders.WebSocketEventSource(PS, cli)
            sources["trades2"] = strades.WebSocketEventSource(PS2, cli)
            for name in ("trades", "orders", "trades2"):
                cli.set_channel_event_source(chans[name], sources[name])

            def wanted():
                return {(f"{c}-77" if private else c) for c in cli._event_sources}

            def subscribed(ws):
                s = set()
                for _, m in ws.sent:
                    if m.get("event") == "bts:subscribe":
                        s.add(m["data"]["channel"])
                        if private and "auth" not in m["data"]:
                            problems.append(("no-auth", "private subscription without auth token"))
                return s
        cli.backoff_secs = BACKOFF

        def check(tag):
            ws = env.live()
            if ws is None:
                problems.append(("not-connected", f"{tag}: no live connection after the fault-free suffix"))
                return
            want, have = wanted(), subscribed(ws)
            if not want <= have:
                problems.append(("channel-not-subscribed", f"{tag}: {sorted(want - have)} not subscribed on live connection "
                                 f"#{ws.idx} (subscribed: {sorted(have)})"))

        trade = {"id": 1, "amount_str": "1", "price_str": "2", "type": 0, "microtimestamp": "1577836800000000",
                 "buy_order_id": 1, "sell_order_id": 2, "amount": 1, "price": 2}
        order = {"id": 1, "order_type": 1, "microtimestamp": "1577836800000000", "amount_str": "0.5", "amount_at_create": "1.5",
                 "price_str": "3", "amount": 0.5, "price": 3}

        async def driver():
            await asyncio.sleep(2 * STEP)
            for a in actions:
                ws = env.live()
                if a == "tick":
                    pass
                elif a == "fail_connect":
                    env.fail_next_connect = True
                elif a == "fail_http":
                    env.fail_next_http = True
                elif a == "slow_http":
                    env.http_delay = 1.5 * STEP
                elif a == "slow_send":
                    env.send_delay = 1.5 * STEP
                elif a == "add_channel":
                    interesting[0] = interesting[0] or ws is not None
                    if fam == "generic":
                        if "c" not in cli._event_sources:
                            sources["c"] = GenericSource(cli, "c")
                            cli.set_channel_event_source("c", sources["c"])
                    elif fam == "binance":
                        if "ethusdt@trade" not in cli._event_sources:
                            cli.set_channel_event_source_ex(bws.PublicChannel("ethusdt@trade"),
                                                            trades.WebSocketEventSource(bs.Pair("ETH", "USDT"), cli))
                    else:
                        c = sbook.get_channel(PS)
                        if c not in cli._event_sources:
                            cli.set_channel_event_source(c, sbook.WebSocketEventSource(PS, cli))
                elif ws is None:
                    pass
                elif fam == "generic":
                    if a in ("msg_a", "msg_b"):
                        ws.deliver("text", json.dumps({"channel": a[-1], "data": 1}))
                        sent_msgs[a[-1]] += 1
                    elif a == "unknown_channel":
                        ws.deliver("text", json.dumps({"channel": "zzz", "data": 1}))
                    elif a == "reconnect_req":
                        ws.deliver("text", json.dumps({"reconnect": True}))
                    elif a == "resub_a":
                        interesting[0] = True
                        n_before, idx = len(ws.sent), ws.idx
                        ws.deliver("text", json.dumps({"resub": "a"}))
                        await asyncio.sleep(4 * STEP)  # longer than any scripted slowness, also one already in flight
                        w2 = env.live()
                        if w2 is not None and w2.idx == idx and not any("a" in m.get("subscribe", []) for _, m in ws.sent[n_before:]):
                            problems.append(("no-resubscription-on-live-connection", "channel flagged for re-subscription was not "
                                             "re-subscribed on the live connection"))
                        continue
                elif fam == "binance":
                    if a == "msg_trade":
                        ws.deliver("text", json.dumps({"stream": tchan.stream, "data": {"e": "trade", "E": 1, "s": "BTCUSDT", "t": 1,
                                                                                       "p": "1", "q": "1", "b": 1, "a": 2, "T": 1, "m": True}}))
                        sent_msgs["trade"] += 1
                    elif a == "msg_user":
                        try:
                            stream = uchan.stream
                        except AssertionError:
                            stream = None
                        if stream:
                            ws.deliver("text", json.dumps({"stream": stream, "data": {"e": "outboundAccountPosition", "E": 1, "u": 1, "B": []}}))
                            if stream in subscribed(ws):
                                sent_msgs["user"] += 1
                            else:
                                sent_msgs["user-maybe"] += 1
                    elif a == "expired":
                        try:
                            stream = uchan.stream
                        except AssertionError:
                            stream = None
                        if stream and stream in subscribed(ws):
                            interesting[0] = True
                            n_before, idx = len(ws.sent), ws.idx
                            failing = env.fail_next_http
                            ws.deliver("text", json.dumps({"stream": stream, "data": {"e": "listenKeyExpired", "E": 1}}))
                            sent_msgs["user"] += 1  # the expiry notice itself is a user data event
                            await asyncio.sleep(4 * STEP)
                            w2 = env.live()
                            if w2 is not None and w2.idx == idx and not failing:
                                new = [m for _, m in ws.sent[n_before:] if m.get("method") == "SUBSCRIBE"]
                                if not any(uchan.stream in m["params"] for m in new):
                                    problems.append(("no-resubscription-on-live-connection", "expired listen key was not "
                                                     "re-subscribed on the live connection"))
                                elif uchan.stream == stream:
                                    problems.append(("stale-listen-key", "re-subscribed with the expired listen key"))
                            continue
                    elif a == "ack":
                        ws.deliver("text", json.dumps({"result": None, "id": 1}))
                    elif a == "sub_error":
                        ws.deliver("text", json.dumps({"result": {"code": 2, "msg": "bad"}, "id": 1}))
                    elif a == "unknown_stream":
                        ws.deliver("text", json.dumps({"stream": "nope@trade", "data": {}}))
                else:
                    if a == "msg_trades":
                        ws.deliver("text", json.dumps({"event": "trade", "channel": chans["trades"], "data": trade}))
                        sent_msgs["trades"] += 1
                    elif a == "msg_trades2":
                        ws.deliver("text", json.dumps({"event": "trade", "channel": chans["trades2"], "data": trade}))
                        sent_msgs["trades2"] += 1
                    elif a == "msg_orders":
                        ws.deliver("text", json.dumps({"event": "order_created", "channel": chans["orders"], "data": order}))
                        sent_msgs["orders"] += 1
                    elif a == "reconnect_req":
                        ws.deliver("text", json.dumps({"event": "bts:request_reconnect", "channel": "", "data": ""}))
                    elif a == "bts_error":
                        ws.deliver("text", json.dumps({"event": "bts:error", "data": {"code": 1}}))
                    elif a == "sub_failed":
                        ws.deliver("text", json.dumps({"event": "bts:subscription_failed", "channel": chans["trades"]}))
                    elif a == "unknown_event":
                        ws.deliver("text", json.dumps({"event": "whatever", "channel": chans["trades"], "data": {}}))
                if ws is not None:
                    if a == "garbage":
                        ws.deliver("text", "{not json")
                    elif a == "binary":
                        ws.deliver("binary", b"\x00\x01")
                    elif a == "close":
                        ws.deliver("close")
                    elif a == "drop":
                        ws.deliver("drop")
                await asyncio.sleep(STEP)
            await asyncio.sleep(10 * STEP)  # fault-free suffix
            check("end")
            env.end_time = loop.time()
            if d is not None:
                d.stop()
            else:
                holder["main"].cancel()

        holder = {}

        async def main():
            if d is not None:
                await asyncio.gather(d.run(stop_signals=[]), driver())
            else:
                holder["main"] = asyncio.ensure_future(cli.main())
                await driver()
                try:
                    await holder["main"]
                except asyncio.CancelledError:
                    pass
        out = "ok"
        try:
            t = loop.run(main(), horizon=30.0, max_steps=400000)
            if t.exception() is not None:
                out = "raised:" + repr(t.exception())[:80]
        except (Deadlock, Horizon, StepCap, Livelock) as e:
            out = type(e).__name__
        finally:
            loop.shutdown()
        if out != "ok":
            problems.append(("run-outcome", out))
        # routing (non-dispatcher families: pop what the sources hold)
        if d is None:
            for name, src in sources.items():
                while src.pop() is not None:
                    got[name] += 1
        for name in sources:
            lo = sent_msgs[name]
            hi = lo + (sent_msgs[name + "-maybe"] if name == "user" else 0)
            if not lo <= got[name] <= hi:
                problems.append(("routing", f"source {name!r} produced {got[name]} events for {lo}..{hi} messages of its channel"))
        # back-off
        for a, b in zip(env.connect_times, env.connect_times[1:]):
            if b - a < BACKOFF - 1e-9:
                problems.append(("backoff", f"connection attempts at {a:.3f} and {b:.3f}, {b - a:.3f}s apart (< {BACKOFF})"))
        # keep-alive: gaps between listen-key refreshes while the stream is subscribed
        if fam == "binance":
            end = getattr(env, "end_time", loop.time())
            times = [t for (t, kind, _) in env.key_events]  # creations, refreshes and refresh attempts that failed
            if times:
                gaps = [b - a for a, b in zip(times, times[1:])] + [end - times[-1]]
                # tolerance: one poll period of the dispatcher + one step of the scripted slowness / failures
                tol = 0.05 + (2 * STEP if any(x in actions for x in ("slow_http", "fail_http", "close", "drop", "fail_connect", "expired")) else 0)
                if max(gaps) > KA + tol:
                    problems.append(("keep-alive-gap", f"listen key not refreshed for {max(gaps):.3f}s (period {KA}s); key events "
                                     f"{[(round(t, 3), k) for t, k, _ in env.key_events]}"))
    finally:
        bdt.utc_now = saved_now
        cws.time = saved_time
    return dict(problems=problems, conns=len(env.conns), interesting=interesting[0] or len(env.conns) > 1)


def run_scenario(sc, tier):
    res = Result()
    fam, depth, prefix = sc
    acts = ACTIONS[fam]
    if prefix and prefix[-1] == "*":
        base = prefix[:-1]
        seqs = (base + tail for n in range(1, depth - len(base) + 1) for tail in itertools.product(acts, repeat=n))
    else:
        seqs = [prefix]
    for seq in seqs:
        r = run_case(fam, seq)
        res.executions += 1
        res.transitions += len(seq) + 1
        res.validated += 1
        key = h64((fam, seq))
        res.states.add(key)
        if r["interesting"]:
            res.nontrivial.add(key)
        res.outcomes[f"{fam}:{min(r['conns'], 3)} connections"] += 1
        case = dict(family=fam, actions=list(seq))
        if not res.samples and r["conns"] > 1:
            res.samples.append(case)
        for clause, detail in r["problems"]:
            res.violation(f"{PROPERTY}:{clause}:{fam}", f"{detail}; {case}", case, size=len(seq))
    return res


def replay(rep):
    r = run_case(rep["family"], tuple(rep["actions"]))
    print("case:", rep, "connections:", r["conns"])
    return [f"{c}: {d}" for c, d in r["problems"]]

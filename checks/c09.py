"""C09 - percentage fees are exact, rounded up once, never negative (DESIGN.md section 3, C09).

Every composition of an order amount of N units into partial fills (produced by bar volumes under a 100%-volume, zero
impact liquidity model), x every sequence of fill prices from an awkward set, x percentage x minimum fee x quote precision
x base precision x side, through the real Exchange / OrderManager. After EVERY fill the total fee must equal
ceil_qp(max(pct x total quote / 100, min_fee)).
"""
import itertools
from decimal import Decimal as D, ROUND_UP

import basana as bs
from basana.backtesting import exchange as ex, fees, liquidity

from mc.framework import Result, h64
from worlds.exch import PAIRS, T, call, SIDE

PROPERTY = "C09"
RULE = ("case = (fee percentage, minimum fee, quote precision, base precision, side, composition of N units into partial "
        "fills, fill price per part); all cases of the product up to N are executed on the real exchange and the fee "
        "oracle is evaluated after every fill. Distinct = distinct cases; non-trivial = at least two fills.")
ASSUMPTIONS = [
    "N <= 6 (quick) / 7 (thorough) units; prices from {33.337, 100, 1234.5678, 0.07} (quantised to the quote precision)",
    "percentages {0, 0.1, 0.25, 1, 2.5, 99.99, 0.075, 12.345}, minimum fees {0, 0.01, 1, 5}, quote precision {0, 2, 8}, base "
    "precision {0, 2}; precision configured through set_pair_info, through default_pair_info only, or derived from the "
    "symbols' precisions; two pairs sharing the quote symbol and a cross pair quoted in another pair's base symbol",
    "partial fills are produced with VolumeShareImpact(100, 0): each bar's volume is the size of the next part",
]
BOUNDS = {"quick": dict(max_units=6), "thorough": dict(max_units=7)}
EXPLANATION = ("bounded exhaustive enumeration of fill sequences against the real exchange; every case is an "
               "implementation run")
P = PAIRS[0]
PCTS = ("0", "0.1", "0.25", "1", "2.5", "99.99", "0.075", "12.345")  # incl. rates that are not whole basis points
MINS = ("0", "0.01", "1", "5")
PRICES = ("33.337", "100", "1234.5678", "0.07")


def compositions(n):
    if n == 0:
        yield ()
        return
    for first in range(1, n + 1):
        for rest in compositions(n - first):
            yield (first,) + rest


def scenarios(tier, seed):
    out = [("nofee", qp, bp) for qp in (0, 2, 8) for bp in (0, 2)]
    out += [("two-pairs", pct, mn) for pct in PCTS for mn in MINS]
    for pct in PCTS:
        for mn in MINS:
            for qp in (0, 2, 8):
                for bp in (0, 2):
                    out.append(("pct", pct, mn, qp, bp))
    # the other two ways of configuring precision (smaller N: the arithmetic is the same, the configuration path is not)
    for conf in ("dpi", "derived"):
        for pct in ("0.25", "12.345"):
            for mn in ("0", "1"):
                for qp, bp in ((0, 0), (8, 2), (3, 1)):
                    out.append(("pct", pct, mn, qp, bp, conf))
    return out


def run_case(fee, qp, bp, side, parts, prices, conf="pair"):
    """Returns list of (clause, detail) and the number of fills."""
    try:
        return _run_case(fee, qp, bp, side, parts, prices, conf)
    except Exception as x:  # noqa: nothing in these cases is a request the exchange may refuse
        return [("internal-error", f"{type(x).__name__}: {x}")], 0


def _run_case(fee, qp, bp, side, parts, prices, conf):
    bad = []
    d = bs.backtesting_dispatcher()
    fs = fees.NoFee() if fee is None else fees.Percentage(D(fee[0]), D(fee[1]))
    kw = dict(default_pair_info=bs.PairInfo(bp, qp)) if conf == "dpi" else {}
    e = ex.Exchange(d, {"USD": D(10 ** 12), "BTC": D(10 ** 6)}, fee_strategy=fs,
                    liquidity_strategy_factory=lambda: liquidity.VolumeShareImpact(D(100), D(0)), **kw)
    e.add_bar_source(bs.FifoQueueEventSource())
    if conf == "pair":
        e.set_pair_info(P, bs.PairInfo(bp, qp))
    if conf != "dpi":
        e.set_symbol_precision("BTC", bp)
        e.set_symbol_precision("USD", qp)
    unit = D(1).scaleb(-bp)
    uq = D(1).scaleb(-qp)
    n = sum(parts)
    d._set_now(T(1))
    call(e._on_bar_event(bs.BarEvent(T(1), bs.Bar(T(0), P, D(100), D(100), D(100), D(100), D(0)))))
    limit = D(10 ** 6) if side == "B" else uq
    oid = call(e.create_limit_order(SIDE[side], P, n * unit, limit)).id
    info0 = call(e.get_order_info(oid))
    if info0.fees:
        bad.append(("fee-without-trade", f"fees {info0.fees} on an order that never traded"))
    t = 1
    nfills = 0
    prev_fee = D(0)
    # a bar without volume: the order does not trade, so it pays nothing
    t += 1
    d._set_now(T(t))
    call(e._on_bar_event(bs.BarEvent(T(t), bs.Bar(T(t - 1), P, D(100), D(100), D(100), D(100), D(0)))))
    info0 = call(e.get_order_info(oid))
    if info0.amount_filled == 0 and any(info0.fees.values()):
        bad.append(("fee-without-trade", f"fees {info0.fees} on an order that has not traded"))
    for part, price in zip(parts, prices):
        t += 1
        d._set_now(T(t))
        p = D(price)
        call(e._on_bar_event(bs.BarEvent(T(t), bs.Bar(T(t - 1), P, p, p, p, p, part * unit))))
        info = call(e.get_order_info(oid))
        total_fee = sum(info.fees.values(), D(0))
        if any(s != "USD" for s in info.fees):
            bad.append(("fee-symbol", f"fees charged in {sorted(info.fees)}"))
        if any(v < 0 for v in info.fees.values()) or total_fee < prev_fee:
            bad.append(("negative-fee", f"fees {info.fees} after {prev_fee}"))
        if info.amount_filled == 0:
            if total_fee != 0:
                bad.append(("fee-without-trade", f"fees {info.fees} with nothing filled"))
            continue
        nfills += 1
        if fee is None:
            exp = D(0)
        else:
            exp = max(info.quote_amount_filled * D(fee[0]) / 100, D(fee[1])).quantize(uq, rounding=ROUND_UP)
        if total_fee != exp:
            bad.append(("fee-amount", f"after fills {parts[:nfills]} at {prices[:nfills]}: total quote "
                        f"{info.quote_amount_filled}, fees {total_fee}, expected {exp}"))
        prev_fee = total_fee
    return bad, nfills


def run_two_pairs(sc, res):
    """Two pairs sharing the quote symbol with DIFFERENT quote precisions: each order's fee is rounded up to the precision
    of ITS pair, whatever was traded before."""
    from worlds.exch import PAIRS as ALLP
    _, pct, mn = sc
    for (P1, P2) in ((ALLP[0], ALLP[1]), (ALLP[0], ALLP[2])):  # ETH/USD shares the quote symbol; ETH/BTC is quoted in BTC
      for (qp1, qp2) in ((2, 6), (6, 2), (0, 8), (2, 2)):
        for order in ((0, 1), (1, 0), (0, 1, 0), (1, 0, 1)):
            for price in ("33.337", "0.071234", "15061.72"):
                d = bs.backtesting_dispatcher()
                e = ex.Exchange(d, {"USD": D(10 ** 12), "BTC": D(10 ** 6), "ETH": D(10 ** 6)},
                                fee_strategy=fees.Percentage(D(pct), D(mn)), liquidity_strategy_factory=liquidity.InfiniteLiquidity)
                e.add_bar_source(bs.FifoQueueEventSource())
                precs = {0: qp1, 1: qp2}
                e.set_pair_info(P1, bs.PairInfo(0, qp1))
                e.set_pair_info(P2, bs.PairInfo(0, qp2))
                e.set_symbol_precision("BTC", 0 if P2.quote_symbol == "USD" else qp2)
                e.set_symbol_precision("ETH", 0)
                e.set_symbol_precision("USD", max(qp1, qp2) if P2.quote_symbol == "USD" else qp1)
                t = 0
                bad = []
                for which in order:
                    pair = (P1, P2)[which]
                    qp = precs[which]
                    p = D(price).quantize(D(1).scaleb(-qp))
                    if p <= 0:
                        continue
                    t += 1
                    d._set_now(T(t))
                    call(e._on_bar_event(bs.BarEvent(T(t), bs.Bar(T(t - 1), pair, p, p, p, p, D(10)))))
                    oid = call(e.create_market_order(SIDE["B"], pair, D(3))).id
                    t += 1
                    d._set_now(T(t))
                    call(e._on_bar_event(bs.BarEvent(T(t), bs.Bar(T(t - 1), pair, p, p, p, p, D(10)))))
                    info = call(e.get_order_info(oid))
                    if info.amount_filled == 0:
                        continue
                    exp = max(info.quote_amount_filled * D(pct) / 100, D(mn)).quantize(D(1).scaleb(-qp), rounding=ROUND_UP)
                    got = sum(info.fees.values(), D(0))
                    if got != exp:
                        bad.append(("fee-amount", f"pair with quote precision {qp}: quote {info.quote_amount_filled}, fees {got}, "
                                    f"expected {exp}"))
                    if any(s_ != pair.quote_symbol and v for s_, v in info.fees.items()):
                        bad.append(("fee-symbol", f"order on {pair} charged fees in {sorted(info.fees)}"))
                case = dict(kind="two-pairs", fee=[pct, mn], quote_precisions=[qp1, qp2], order_of_pairs=list(order), price=price,
                            second_pair=str(P2))
                res.executions += 1
                res.transitions += 2 * len(order)
                res.validated += 1
                key = h64(("two-pairs", sc, str(P2), qp1, qp2, order, price))
                res.states.add(key)
                res.nontrivial.add(key)
                res.outcomes["two-pairs"] += 1
                for clause, detail in bad:
                    res.violation(f"{PROPERTY}:{clause}:two-pairs", f"{detail}; {case}", case, size=len(order))
    res.samples.append(dict(kind="two-pairs", fee=[pct, mn]))
    return res


def run_scenario(sc, tier):
    res = Result()
    if sc[0] == "two-pairs":
        return run_two_pairs(sc, res)
    maxn = BOUNDS[tier]["max_units"]
    if sc[0] == "nofee":
        fee = None
        qp, bp = sc[1], sc[2]
    else:
        pct, mn, qp, bp = sc[1:5]
        fee = (pct, mn)
    conf = sc[5] if len(sc) > 5 else "pair"
    if conf != "pair":
        maxn = min(maxn, 3)
    prices = [str(D(p).quantize(D(1).scaleb(-qp))) for p in PRICES]
    prices = [p for p in dict.fromkeys(prices) if D(p) > 0][:3]
    for side in ("B", "S"):
        for n in range(1, maxn + 1):
            for parts in compositions(n):
                if len(parts) <= 3:
                    seqs = itertools.product(prices, repeat=len(parts))
                else:
                    seqs = [tuple(prices[(i + k) % len(prices)] for i in range(len(parts))) for k in range(len(prices))]
                for ps in seqs:
                    bad, nfills = run_case(fee, qp, bp, side, parts, ps, conf)
                    res.executions += 1
                    res.transitions += len(parts) + 1
                    res.validated += 1
                    key = h64((sc, side, parts, ps))
                    res.states.add(key)
                    if nfills >= 2:
                        res.nontrivial.add(key)
                    res.outcomes[f"{min(nfills, 3)}+ fills" if nfills >= 3 else f"{nfills} fills"] += 1
                    case = dict(fee=None if fee is None else list(fee), qp=qp, bp=bp, side=side, parts=list(parts),
                                prices=list(ps), conf=conf)
                    if not res.samples and nfills >= 2:
                        res.samples.append(case)
                    for clause, detail in bad:
                        res.violation(f"{PROPERTY}:{clause}", f"{detail}; {case}", case, size=len(parts))
    return res


def replay(rep):
    if rep.get("kind") == "two-pairs":
        res = Result()
        run_two_pairs(("two-pairs", rep["fee"][0], rep["fee"][1]), res)
        return [v["message"] for v in res.violations][:5]
    fee = None if rep["fee"] is None else tuple(rep["fee"])
    print("case:", rep)
    bad, _ = run_case(fee, rep["qp"], rep["bp"], rep["side"], tuple(rep["parts"]), tuple(rep["prices"]), rep.get("conf", "pair"))
    return [f"{c}: {d}" for c, d in bad]

"""Shared scaffolding of the backtesting-exchange checks (C01, C02, C05, C06, C07, C08, C10, C11): configuration
product, sharded BFS over operation histories with the property's monitors, conformance of the synchronous driver
against the public-API driver (DESIGN.md sections 2.3, 2.4, 3)."""
import itertools

from mc.framework import Result, h64
from worlds import exch, exch_bfs

# name -> configuration of the real exchange
CONFIGS = {
    "K0": dict(lend=None, fee=(1, 2), liq=(25, 10), init=(("USD", 1000), ("BTC", 5)), bp=0, qp=2),
    "K1": dict(lend=dict(req="0.5", isym="USD", period=10), fee=(1, 0), liq=(25, 10), init=(("USD", 300),), bp=0, qp=2),
    "K2": dict(lend=dict(req="1", isym="USD", period=10, minint=1), fee=None, liq=None, init=(("USD", 50),), bp=0, qp=2),
    "K3": dict(lend=dict(req="0.5", isym="USD", period=10), fee=("0.25", 2), liq=None,
               init=(("USD", 300), ("BTC", 2)), bp=1, qp=0),
    "K4": dict(lend=dict(req="0.5", isym="same", period=3), fee=None, liq=(33, 0), init=(), bp=0, qp=2),
    "K5": dict(lend=None, fee=(1, 0), liq=None, init=(("USD", 500),), bp=2, qp=2, pairs=2),
    "K6": dict(lend=dict(req="2", isym="same", period=0), fee=None, liq=None, init=(("USD", 1000), ("BTC", 1)), bp=8, qp=8),
    "K7": dict(lend=dict(req="0.5", isym="USD", period=7), fee=None, liq=(25, 10), init=(("USD", 300),), bp=0, qp=2,
               pairs=2),
    "K8": dict(lend=dict(req="0", isym="USD", period=10, minint=1), fee=(1, 0), liq=None, init=(("USD", 100),), bp=0, qp=2),
    "K9": dict(lend=None, fee=None, liq=(33, 0), init=(("USD", 200), ("BTC", 3)), bp=0, qp=0),
    "K10": dict(lend=dict(req="1", isym="same", period=10), fee=(1, 2), liq=(25, 10), init=(("USD", 100), ("BTC", 1)),
                bp=0, qp=2),
    "K11": dict(lend=None, fee=("0.25", 2), liq=(25, 10), init=(("USD", "250.50"),), bp=1, qp=2),
    "K12": dict(lend=dict(req="0.5", isym="USD", period=10), fee=None, liq=None, init=(("USD", 1),), bp=0, qp=2),  # tiny equity
    "K13": dict(lend=dict(req="0.5", isym="USD", period=3), fee=None, liq=None, init=(("USD", 300), ("BTC", 1)), bp=0, qp=2),
    # margin account valued in the base symbol: every valuation goes through the inverse of the only pair
    "K15": dict(lend=dict(req="0.5", isym="same", period=10, quote="BTC"), fee=None, liq=None, init=(("BTC", 1),), bp=0, qp=2),
    # cross pair ETH/BTC next to ETH/USD and BTC/USD; the minimum fee (0.5 BTC) exceeds the proceeds of a unit order
    "K16": dict(lend=dict(req="0.5", isym="same", period=10), fee=("0.25", "0.5"), liq=None, init=(("USD", 10000),), bp=8, qp=2,
                pairs=3),
    # orders placed before the first bar (no clock, no price yet)
    "K0p": dict(lend=None, fee=(1, 2), liq=(25, 10), init=(("USD", 1000), ("BTC", 5)), bp=0, qp=2, pre_bar=True),
    # pair precisions derived from the symbols' precisions (no set_pair_info), both 0
    "K9s": dict(lend=None, fee=(1, 0), liq=(33, 0), init=(("USD", 2000), ("BTC", 30)), bp=0, qp=0, no_pair_info=True),
    # infinite liquidity, no lending: zero-volume bars must still fill
    "K20": dict(lend=None, fee=(1, 0), liq=None, init=(("USD", 1000), ("BTC", 5)), bp=0, qp=2),
    # an initial balance that is not a multiple of the symbol precision (shortages of auto-borrow orders are then off-grid)
    "K21": dict(lend=dict(req="0.5", isym="USD", period=10), fee=None, liq=None, init=(("USD", "300.005"), ("BTC", 1)), bp=0, qp=2),
    # per-symbol margin requirements: ETH needs no collateral, everything else 50%
    "K22": dict(lend=dict(req="0.5", isym="same", period=10, req_by_symbol={"ETH": "0"}), fee=None, liq=None, init=(("USD", 300),),
                bp=0, qp=2, pairs=2),
    "K14": dict(lend=dict(req="0.5", isym="same", period=7, pct="2.5"), fee=(1, 0), liq=(25, 10),
                init=(("USD", 500), ("BTC", 2)), bp=2, qp=2),
    # a minimum fee above the proceeds of small sells: the sell reserves quote funds too, released as it fills / closes
    "K23": dict(lend=None, fee=("0.25", 250), liq=(25, 10), init=(("USD", 1000), ("BTC", 5)), bp=0, qp=2),
    # the pair trades on a finer grid than the precision configured for its symbols
    "K24": dict(lend=None, fee=("0.25", 0), liq=(25, 10), init=(("USD", 1000), ("BTC", 5)), bp=2, qp=4,
                sym_prec={"USD": 2, "BTC": 2}),
    "K25": dict(lend=dict(req="0.5", isym="USD", period=3), fee=None, liq=None, init=(("USD", 300), ("BTC", 1)), bp=0, qp=4,
                sym_prec={"USD": 2}),
    # precision configured through Exchange(default_pair_info=...) only
    "K26": dict(lend=None, fee=(1, 0), liq=(33, 0), init=(("USD", 2000), ("BTC", 30)), bp=0, qp=0, dpi=True),
    "K27": dict(lend=None, fee=("0.25", 2), liq=(25, 10), init=(("USD", "250.5"), ("BTC", 3)), bp=1, qp=3, dpi=True),
    # a volume limit of 1% (and bars granting 3 / 2.5 / 10 / 0 units at that limit)
    "K28": dict(lend=None, fee=None, liq=(1, 0), init=(("USD", 5000), ("BTC", 30)), bp=0, qp=2, liq_shapes=(16, 17, 18, 4)),
    # pair precisions derived from different symbol precisions, the base one finer
    "K29": dict(lend=None, fee=(1, 0), liq=(33, 0), init=(("USD", 2000), ("BTC", 30)), bp=2, qp=1, no_pair_info=True,
                liq_shapes=(19, 1, 12, 4), amt_scale=10),
    # default lending conditions (lax, cheap, interest in USD) next to per-symbol ones (strict): the per-symbol ones apply
    "K30": dict(lend=dict(req="1", isym="same", period=10, default=dict(req="0.2", pct=1)), fee=None, liq=None,
                init=(("USD", 300),), bp=0, qp=2),
    # roll-back of an auto-borrow request at its second loan, with a minimum interest and the margin level at exactly 100%
    "K31": dict(lend=dict(req="0.5", isym="USD", period=10, minint=1, req_by_symbol={"BTC": "0"}), fee=("0.25", 500), liq=None,
                init=(("USD", 100),), bp=0, qp=2),
    # interest on every loan charged in BTC: for a USD loan the conversion goes through the inverse of BTC/USD
    # orders and cancellations made by a job scheduled BETWEEN two bars (not from a bar handler)
    "K39": dict(lend=None, fee=(1, 2), liq=(25, 10), init=(("USD", 1000), ("BTC", 5)), bp=0, qp=2, mid_actions=True),
    # a NEGATIVE initial balance (a debt the account starts with, behind which there is no loan) next to margin loans in the
    # same symbol: only the ledger oracle of C01 is meaningful here (C02's borrowed = open loans excludes it by construction)
    "K38": dict(lend=dict(req="0.5", isym="USD", period=10), fee=None, liq=None, init=(("USD", 1000), ("BTC", -1)), bp=0, qp=2),
    # flat interest charged in USD, and a symbol (ETH) that needs no collateral: a loan of ETH before ETH/USD ever traded passes
    # the margin rule, but its interest cannot be priced yet
    "K37": dict(lend=dict(req="0.5", isym="USD", period=0, req_by_symbol={"ETH": "0"}), fee=None, liq=None, init=(("USD", 300),),
                bp=0, qp=2, pairs=2),
    # three pairs with different precisions and quote symbols (ETH/BTC quoted with ONE decimal, BTC/USD with four)
    "K35": dict(lend=None, fee=("0.25", 0), liq=None, init=(("USD", 10000), ("BTC", 100), ("ETH", 100)), bp=2, qp=4, pairs=3,
                pair_prec={2: (2, 1)}),
    # a user-defined fee scheme that charges buys in the BASE symbol
    "K36": dict(lend=None, fee=("base", "1"), liq=(25, 10), init=(("USD", 1000), ("BTC", 5)), bp=2, qp=2),
    # a large account: one precision unit is a tiny fraction of the largest admissible loan (margin boundary)
    "K34": dict(lend=dict(req="0.2", isym="USD", period=10), fee=None, liq=None, init=(("USD", 10000000),), bp=0, qp=2),
    "K33": dict(lend=dict(req="0.5", isym="BTC", period=1, pct=3), fee=None, liq=None, init=(("USD", 1000), ("BTC", 1)),
                bp=8, qp=2),
}



PURPOSE_BUILT = {"K35", "K36", "K37", "K38", "K39", "K23", "K24", "K25", "K26", "K27", "K28", "K29", "K30", "K31", "K33", "K34"}


def thorough_spec(quick, focus, cross=False, exclude=()):
    """Thorough tier = everything of the quick tier, plus every configuration with the small alphabet at depth 4, the
    standard alphabet at depth 4 on two configurations, the focus alphabets one level deeper, deep auto-repay histories
    and long lassos. Sized for roughly 10-15 minutes on 16 cores."""
    items = list(quick)
    have = set(items)

    def add(item):
        if item not in have:
            have.add(item)
            items.append(item)
    for k in CONFIGS:
        # (the purpose-built configurations K23.. come with their own alphabets: they are explored where a check lists them)
        if CONFIGS[k].get("pairs", 1) == 1 and not CONFIGS[k].get("pre_bar") and k not in exclude and k not in PURPOSE_BUILT:
            add((k, "small", 4))
    add(("K0p", "small", 4))
    add(("K0", "std", 4))
    add(("K1", "std", 4))
    add(("K5", "std", 3))
    add(("K7", "small", 3))
    if cross:  # the cross-pair configuration is used by the checks whose oracles do not depend on per-pair precisions
        add(("K16", "cross", 5))
    for k, level in focus:
        add((k, level, 5))
    for k in ("K1", "K10", "K13"):
        add((k, "ar", 8))
    add(("lasso", "K0", "liq", 2, 120))
    add(("lasso", "K5", "pairs2", 2, 120))
    add(("lasso", "K1", "lend", 2, 20))
    return items


def plan(prop, tier, spec):
    """spec[tier]: list of (config name, alphabet level, depth) BFS items and ("lasso", config, level, max cycle length,
    repetitions) items; spec["conf_"+tier]: (config, depth) conformance items. Returns sharded scenarios."""
    out = []
    for item in spec[tier]:
        if item[0] == "lasso3":
            # all 3-cycles of a tiny alphabet x every phase of the open-list re-index (offset = polls before the run)
            _, name, level, reps = item
            alpha = exch.alphabet(CONFIGS[name], level)
            for a1 in alpha:
                for off in range(0, 8):
                    out.append(("lasso3", name, level, reps, a1, off))
            continue
        if item[0] == "lasso":
            _, name, level, maxlen, reps = item
            cfg = CONFIGS[name]
            alpha = exch.alphabet(cfg, level)
            bars = [a for a in alpha if a[0] == "bar"]
            for b in bars[:2]:
                for a1 in alpha:
                    out.append(("lasso", name, level, maxlen, reps, [b], a1))
            continue
        name, level, depth = item
        cfg = CONFIGS[name]
        alpha = exch.alphabet(cfg, level)
        bars = [a for a in alpha if a[0] == "bar"]
        if cfg.get("pre_bar"):
            bars = [a for a in alpha if a[0] in ("bar", "ord")]
        for b in bars:
            if depth >= 6:
                # deep and narrow: one shard per first bar keeps the de-duplication effective
                out.append(("bfs", name, level, depth, [b]))
                continue
            for a2 in alpha:
                out.append(("bfs", name, level, depth, [b, a2]))
    for name, depth in spec["conf_" + tier]:
        cfg = CONFIGS[name]
        alpha = exch.alphabet(cfg, "small")
        bars = [a for a in alpha if a[0] == "bar"]
        for b in bars:
            out.append(("conf", name, depth, [b]))
    return out


def signature(prop, clause, a):
    return f"{prop}:{clause}:{a[0]}"


DEEP = {"C05": {"orders"}, "C02": {"balances", "loans"}, "C11": {"loans"}}


def margin_boundary_probe(cfg, hist, found, res):
    """C10: in the state reached by hist, the smallest loan amounts that an independent calculation says must be refused
    (largest admissible amount plus one precision unit, per priced symbol) are requested; the margin monitor flags a grant."""
    from worlds.exch_monitors import prices_of, ZERO
    from decimal import Decimal as D, ROUND_DOWN
    w = exch.build(cfg, hist)
    if w.t == 0:
        return
    snap = w.snapshot()
    pr = prices_of(w)
    lend = cfg["lend"]
    req = D(str(lend["req"]))
    by_symbol = {k: D(str(v)) for k, v in (lend.get("req_by_symbol") or {}).items()}
    if not all(s in pr for s, b in snap.bal.items() if b[2] or b[3] > 0):
        return
    equity = sum((b[3] * pr[s] for s, b in snap.bal.items() if b[3] > 0), ZERO)
    need = sum((by_symbol.get(s, req) * b[2] * pr[s] for s, b in snap.bal.items() if b[2]), ZERO)
    for sym in ("USD", "BTC"):
        r = by_symbol.get(sym, req)
        if sym not in pr or r <= 0:
            continue
        u = D(1).scaleb(-exch.sym_prec(cfg, sym))
        room = max(equity - need, ZERO) / (r * pr[sym])
        x = (room / u).to_integral_value(rounding=ROUND_DOWN) * u + u
        a = ("loan", sym, str(x))
        out = exch_bfs.transition(cfg, hist, a, ["C10"])
        if out is None:
            continue
        res.transitions += 1
        res.executions += 1
        res.extra["margin_boundary_probes"] += 1
        if out[1].raised is None:
            res.extra["margin_boundary_probes_granted"] += 1
        if out[2]:
            found.append((list(hist) + [a], out[2]))


def run_scenario(prop, sc, tier):
    exch.install_deterministic_ids()
    exch.DEEP_READS = DEEP.get(prop, set())
    res = Result()
    res.union_keys = True  # BFS shards of one configuration reach common states
    if sc[0] == "conf":
        _, name, depth, prefix = sc
        cfg = CONFIGS[name]
        alpha = exch.alphabet(cfg, "small")
        for n in range(0, depth):
            for tail in itertools.product(alpha, repeat=n):
                hist = list(prefix) + list(tail)
                # applicability is decided by the sync world
                w = exch.World(cfg)
                ok = True
                for a in hist:
                    if not w.applicable(a):
                        ok = False
                        break
                    w.apply(a)
                if not ok:
                    continue
                res.executions += 2
                res.transitions += 2 * len(hist)
                diff = exch_bfs.conformance(cfg, hist)
                if diff is not None:
                    raise RuntimeError(f"HARNESS-DIVERGENCE config={name} history={hist}: {diff}")
                res.validated += 1
                res.states.add(h64((name, repr(hist))))
        res.outcomes[("conformance", "agree")] += res.validated
        return res
    if sc[0] == "lasso":
        return run_lasso(prop, sc, res)
    if sc[0] == "lasso3":
        _, name, level, reps, a1, off = sc
        cfg = CONFIGS[name]
        alpha = exch.alphabet(cfg, level)
        found = []
        for a2 in alpha:
            for a3 in alpha:
                cyc = [a1, a2, a3]
                if not any(a[0] == "bar" for a in cyc) or not any(a[0] == "ord" for a in cyc):
                    continue
                exch_bfs.lasso(cfg, [alpha[0]], cyc, reps, [prop], res, lambda h, b: found.append((h, b)), offset=off)
        res.nontrivial |= res.states
        if not res.samples:
            res.samples.append(dict(config=name, lasso3_first_action=list(a1), polls_before=off, repetitions=reps))
        report(prop, name, cfg, found, res)
        return res
    _, name, level, depth, prefix = sc
    cfg = CONFIGS[name]
    alpha = exch.alphabet(cfg, level)
    w = exch.World(cfg)
    for a in prefix:
        if not w.applicable(a):
            return res
        w.apply(a)
    found = []

    def on_violation(hist, bad):
        found.append((hist, bad))
    # the transitions of the prefix itself: the first one is checked by the shard whose second action comes first in the
    # alphabet (or by the shard itself when the prefix is a single action), the second one by every shard
    if len(prefix) == 1 or prefix[1] == alpha[0]:
        out = exch_bfs.transition(cfg, [], prefix[0], [prop])
        res.transitions += 1
        if out and out[2]:
            found.append(([prefix[0]], out[2]))
    if len(prefix) > 1:
        out = exch_bfs.transition(cfg, prefix[:1], prefix[1], [prop])
        res.transitions += 1
        res.executions += 1
        if out and out[2]:
            found.append((list(prefix), out[2]))
            if out[2][0][1] == "public-api-raises":
                # the state this shard starts from cannot even be observed: reported, not explored further
                report(prop, name, cfg, found, res)
                return res
    on_state = None
    if prop == "C10" and cfg.get("lend") and name in ("K34", "K1", "K15", "K30"):
        def on_state(h):
            margin_boundary_probe(cfg, h, found, res)
        on_state(list(prefix))
    exch_bfs.bfs(cfg, alpha, depth, [prop], res, prefix=prefix, on_violation=on_violation, on_state=on_state)
    if not res.samples:
        res.samples.append(dict(config=name, history_prefix=[list(a) for a in prefix], depth=depth, alphabet=len(alpha)))
    report(prop, name, cfg, found, res)
    return res


def run_lasso(prop, sc, res):
    _, name, level, maxlen, reps, prefix, a1 = sc
    cfg = CONFIGS[name]
    alpha = exch.alphabet(cfg, level)
    found = []

    def on_violation(hist, bad):
        found.append((hist, bad))
    cycles = [[a1]]
    if maxlen >= 2:
        cycles += [[a1, a2] for a2 in alpha]
    if maxlen >= 3:
        cycles += [[a1, a2, a3] for a2 in alpha for a3 in alpha]
    for cyc in cycles:
        if not any(a[0] == "bar" for a in cyc) and not any(a[0] == "ord" for a in cyc):
            continue
        exch_bfs.lasso(cfg, prefix, cyc, reps, [prop], res, on_violation)
    if not res.samples:
        res.samples.append(dict(config=name, lasso_prefix=[list(a) for a in prefix], first_cycle_action=list(a1),
                                repetitions=reps, max_cycle_length=maxlen))
    res.nontrivial |= res.states
    report(prop, name, cfg, found, res)
    return res


def report(prop, name, cfg, found, res):
    confirmed = set()
    for hist, bad in found:
        for p, clause, detail in bad:
            sig = signature(p, clause, hist[-1])
            if clause == "public-api-raises":
                confirmed.add(sig)  # the observation functions themselves raise: nothing to compare between drivers
            if sig not in confirmed:
                # every violation found with the fast driver is replayed through the public API before it is reported
                for h in (hist[:-1], hist):
                    if h and h[0][0] == "bar":
                        diff = exch_bfs.conformance(cfg, h)
                        if diff is not None:
                            raise RuntimeError(f"HARNESS-DIVERGENCE config={name} history={h}: {diff}")
                        res.validated += 1
                confirmed.add(sig)
            res.violation(sig, f"{detail}; config={name} history={hist}", dict(config=name, history=hist), size=len(hist))


def replay(prop, rep):
    exch.install_deterministic_ids()
    cfg = CONFIGS[rep["config"]]
    hist = [tuple(a) for a in rep["history"]]
    print("config", rep["config"], cfg)
    print("public-API script (one step per bar; the actions after a bar are issued by the strategy while handling it):")
    for a in hist:
        print("   ", a)
    out = exch_bfs.transition(cfg, hist[:-1], hist[-1], [prop])
    diff = exch_bfs.conformance(cfg, hist)
    print("public-API driver agrees with the synchronous driver:", diff is None, diff or "")
    if out is None:
        return []
    w, tr, bad = out
    print("raised:", tr.raised)
    print("balances before:", tr.before.bal)
    print("balances after: ", tr.after.bal)
    return [f"{p}:{c}: {d}" for p, c, d in bad]

#!/usr/bin/env python3
"""Runs, for every seeded change under /verif/seeded/<ID>-<k>/ (and optionally every /verif/mutants/*.patch), the quick
check of the property it breaks against /repo with the patch applied (always reverted afterwards), and records the result
in seeded/<ID>-<k>/meta.json and in seeded/MATRIX.md. Usage: tools/seed_matrix.py [--mutants] [ID ...]"""
import json
import os
import re
import subprocess
import sys

VERIF = os.path.dirname(os.path.dirname(os.path.abspath(__file__)))
NEEDS = json.load(open(os.path.join(VERIF, "seeded", "needs.json")))


# seeded changes that no longer break their property on the repaired tree (their demonstration passes with the patch applied):
# the check must be SILENT on them
NEUTRALISED = {
    "C16-2": "neutralised by the repair 3a000cd: keyword-argument decimals are now formatted BEFORE the request is signed, so "
             "re-formatting them after signing changes nothing (demo.py passes with the patch on the repaired tree)",
}


def run_mutant(patch, prop):
    p = subprocess.run([os.path.join(VERIF, "tools", os.environ.get("VERIF_MUTANT_RUNNER", "mutant_wt.sh")), patch, prop], capture_output=True, text=True)
    sigs = []
    out = p.stdout
    rc = re.search(r"check-exit=(\d+)", out)
    return int(rc.group(1)) if rc else -1, out


def signatures(prop):
    d = os.path.join(VERIF, "replays", prop)
    return d


def run_many(items):
    """items: list of (patch, prop). Runs PAR mutant checks at a time, each on 16 // PAR worker processes."""
    import concurrent.futures as cf
    par = int(os.environ.get("VERIF_MATRIX_PAR", "4"))
    os.environ["VERIF_JOBS"] = str(max(2, 16 // par))
    with cf.ThreadPoolExecutor(max_workers=par) as tp:
        return list(tp.map(lambda it: run_mutant(*it), items))


def main():
    args = [a for a in sys.argv[1:] if not a.startswith("--")]
    rows = []
    seeded = sorted(d for d in os.listdir(os.path.join(VERIF, "seeded")) if os.path.isdir(os.path.join(VERIF, "seeded", d)))
    todo = [name for name in ([] if "--only-wb" in sys.argv else seeded)
            if not args or name.split("-")[0] in args or name in args]
    results = run_many([(os.path.join(VERIF, "seeded", name, "patch.diff"), name.split("-")[0]) for name in todo])
    for name, (rc, out) in zip(todo, results):
        prop = name.split("-")[0]
        d = os.path.join(VERIF, "seeded", name)
        log = open(os.path.join(d, "verify.log")).read().strip().splitlines()[-1] if os.path.exists(os.path.join(d, "verify.log")) else ""
        first = ""
        for line in out.splitlines():
            if "VIOLATION" in line:
                first = line.strip()
                break
        meta = dict(
            id=name, breaks_property=prop, source="independent sub-agent given only the property text and a scratch worktree",
            needs=NEEDS.get(name, ""),
            confirmed=dict(how="tools/verify_seed.sh in the scratch worktree: demo.py exits 0 on the clean tree and 1 with "
                           "patch.diff applied; tools/baseline.py (the repository's 226 pinned tests) passes with the patch",
                           result=log),
            check=dict(command=f"git -C /repo apply seeded/{name}/patch.diff && ./run {prop} quick; git -C /repo checkout -- .",
                       exit_code=rc, detected=rc == 1, first_violation_line=first))
        with open(os.path.join(d, "meta.json"), "w") as f:
            json.dump(meta, f, indent=1)
            f.write("\n")
        if name in NEUTRALISED:
            meta["check"]["detected"] = None
            meta["neutralised"] = NEUTRALISED[name]
            with open(os.path.join(d, "meta.json"), "w") as f:
                json.dump(meta, f, indent=1)
                f.write("\n")
            rows.append((name, prop, "silent, as it should be" if rc == 0 else f"ALARM on a neutralised change (exit {rc})",
                         NEUTRALISED[name]))
            print(rows[-1][:3], flush=True)
            continue
        rows.append((name, prop, "detected" if rc == 1 else f"MISSED (exit {rc})", NEEDS.get(name, "")))
        print(rows[-1][:3], flush=True)
    if "--mutants" in sys.argv:
        fns = [fn for fn in sorted(os.listdir(os.path.join(VERIF, "mutants"))) if fn.endswith(".patch")]
        fns = [fn for fn in fns if not args or re.match(r"(?:revert_)?(C\d\d)", fn).group(1) in args]
        results = run_many([(os.path.join(VERIF, "mutants", fn), re.match(r"(?:revert_)?(C\d\d)", fn).group(1)) for fn in fns])
        for fn, (rc, out) in zip(fns, results):
            prop = re.match(r"(?:revert_)?(C\d\d)", fn).group(1)
            rows.append(("mutants/" + fn, prop, "detected" if rc == 1 else f"MISSED (exit {rc})", ""))
            print(rows[-1][:3], flush=True)
    if "--wb" in sys.argv:
        wrows = []
        fns = [fn for fn in sorted(os.listdir(os.path.join(VERIF, "mutants", "wb"))) if fn.endswith(".patch")]
        fns = [fn for fn in fns if not args or fn.split("-")[0] in args]
        results = run_many([(os.path.join(VERIF, "mutants", "wb", fn), fn.split("-")[0]) for fn in fns])
        for fn, (rc, out) in zip(fns, results):
            prop = fn.split("-")[0]
            wrows.append((fn, prop, "detected" if rc == 1 else f"MISSED (exit {rc})"))
            print(wrows[-1], flush=True)
        if not args:
            with open(os.path.join(VERIF, "mutants", "wb", "MATRIX.md"), "w") as f:
                f.write("# White-box review holes (quick tier)\n\nChanges written by reviewers who had read the harness and "
                        "confirmed that the quick check of the time did NOT report them; each row applies the patch to a "
                        "throw-away worktree and runs today's quick check (tools/seed_matrix.py --wb).\n\n"
                        "| patch | property | quick check |\n|---|---|---|\n")
                for r in wrows:
                    f.write("| %s | %s | %s |\n" % r)
    if not args and "--only-wb" not in sys.argv:
        with open(os.path.join(VERIF, "seeded", "MATRIX.md"), "w") as f:
            f.write("# Detection matrix (quick tier)\n\nGenerated by tools/seed_matrix.py; each row applies the change to /repo, "
                    "runs the quick check of the property it breaks, and reverts.\n\n| change | property | quick check | needs |\n|---|---|---|---|\n")
            for r in rows:
                f.write("| %s | %s | %s | %s |\n" % r)


if __name__ == "__main__":
    main()

#!/bin/sh
# usage: tools/mutant_wt.sh <patch> <ID> [tier]
# Like mutant.sh, but never touches /repo: the patch is applied to a throw-away worktree of /repo's HEAD (plus /repo's
# uncommitted changes, if any) outside /repo and /verif, the check binds to it through BASANA_REPO, and the worktree is
# removed afterwards. Safe to use while other runs are using /repo. Prints the check's exit code.
set -u
patch="$(readlink -f "$1")"; id="$2"; tier="${3:-quick}"
wt="$(mktemp -d /tmp/mutwt.XXXXXX)"; rmdir "$wt"
git -C /repo worktree add -q --detach "$wt" HEAD || exit 2
trap 'git -C /repo worktree remove --force "$wt" 2>/dev/null; rm -rf "$wt" "$out" "$evd"' EXIT
out=$(mktemp); evd=$(mktemp -d)
git -C "$wt" apply "$patch" || { echo "patch does not apply"; echo "check-exit=2"; exit 2; }
(cd /verif && BASANA_REPO="$wt" VERIF_EVIDENCE_DIR="$evd" VERIF_STOP_ON_VIOLATION="${VERIF_STOP_ON_VIOLATION-1}" ./run "$id" "$tier" > "$out" 2>&1); rc=$?
grep -E "VIOLATION|KNOWN-FINDING|HARNESS" "$out" | head -6
tail -1 "$out" | cut -c1-200
echo "check-exit=$rc"
[ "$rc" = 1 ]

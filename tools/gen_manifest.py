#!/usr/bin/env python3
"""Regenerates MANIFEST.json from the table below and validates it (run with python3-vt for the validation)."""
import json
import os
import sys

VERIF = os.path.dirname(os.path.dirname(os.path.abspath(__file__)))

# id -> (technique, level text, level note, design ref)
CHECKS = {
    "C13": ("stateless deviation-bounded schedule exploration of the real BacktestingDispatcher on a virtual event loop, "
            "over every job-time tuple / insertion order on a grid",
            "Every execution of the real dispatcher for every tuple of <=3 (quick) / <=4 (thorough) job times over a grid "
            "of past/between/equal/beyond-last-event times incl. sub-second times sharing a second, in every insertion order, "
            "scheduled up front, from handlers and from jobs, one or two event sources (ties across sources), job times "
            "expressed in time zones west/east of UTC, max_concurrent 1..2, every handler/job suspension pattern within the "
            "deviation bound; the exactly-once / on-time / ordering oracle is evaluated on every execution.",
            "Bounded: grid times, <=4 jobs, one event source, deviation bound 1 (quick) / 2 (thorough). CPython's FIFO "
            "ready order is taken as is.", "DESIGN.md section 4, C13"),
    "C12": ("stateless deviation-bounded schedule exploration of the real BacktestingDispatcher on a virtual event loop, "
            "over every timestamp pattern of 2-3 sources on a 3-value grid",
            "Every execution of the real dispatcher for every non-decreasing timestamp sequence per source on {1,2,3} "
            "(ties within and across sources), max_concurrent 1/2/50, with/without catch-all handlers, derived-source "
            "pushes (now / later), a raising handler, duplicate subscriptions (plain functions and equal-but-not-identical bound "
            "methods), a past-dated job, sources with a backlog of 70-200 events, and every handler "
            "suspension pattern (0/1/2 yields, external gate, all gate release orders) within the deviation bound; "
            "exactly-once, global time order, stage order, subscription order and clock oracles on every execution.",
            "Bounded: timestamps on a 3-value grid, <=3 sources, <=3 events per source, deviation bound 1 (quick) / 2 "
            "(thorough). CPython's FIFO ready order is taken as is.", "DESIGN.md section 4, C12"),
    "C14": ("stateless exploration of both real dispatchers on a virtual event loop with stop()/cancel() injected at every "
            "loop step, over every producer failure placement and pool-competition mix",
            "Every execution of BacktestingDispatcher and RealtimeDispatcher for every combination of producer failure "
            "modes (initialize / main at once / main later / main returns / finalize), exit path (exhausted, stop from "
            "handler, handler error with stop-on-error, stop or cancel injected at each loop step in turn; thorough: "
            "pairs of injections), max_concurrent 1..3, due jobs + due events + idle handlers competing for the pool, "
            "short and 500 s handlers, log level WARNING/DEBUG, double cancellation; oracle on producer call trace, outcome class, "
            "promptness in virtual time, in-flight count, fault isolation counts and the process-wide log record factory.",
            "Bounded: 2 (quick) / 3 (thorough) producers, injection within the first 400/600 loop steps, one injection "
            "(thorough: two). Loop-step granularity; CPython FIFO ready order.", "DESIGN.md section 4, C14"),
    "C15": ("exhaustive arrival-pattern enumeration on a virtual clock against the real RealtimeDispatcher, with handler "
            "durations chosen by a stateless explorer",
            "Every arrival pattern of <=3 (quick) / <=4 (thorough) events on 2 sources (arrival instant x timestamp "
            "past/now/future, hence out-of-order chains), job sets (past/now/future), max_concurrent 1/2/50, 0-2 idle "
            "handlers, job times / event timestamps expressed in time zones west and east of UTC, and every assignment of handler "
            "durations {0, 0.5, 3.5 poll periods}; oracle: never early, "
            "bounded liveness, per-source order, out-of-order events dropped and reported, idle handlers only when idle.",
            "Bounded: arrival/timestamp grid, <=4 arrivals, virtual horizon 0.3 s (30 poll periods); virtual clock "
            "replaces utc_now and loop time.", "DESIGN.md section 4, C15"),
    "C03": ("stateless deviation-bounded schedule exploration of a complete backtest (real dispatcher + real exchange) on a "
            "virtual event loop, plus differential comparison across max_concurrent, repetitions and hash seeds",
            "Every scenario of 2-3 (quick) / 2-4 (thorough) pairs x shared/staggered timestamps x one source per pair or "
            "one merged source x strategy subscribed before/after the bar sources x strategy path (bar subscription, "
            "trading signal, order event) x passive second subscribers x single or fund-competing double placements x "
            "market/limit/limit-then-cancel: clause 1 on every handler suspension pattern within the deviation bound for max_concurrent "
            "1/2/3/50; clause 2 by comparing fill history, placements, rejections and balances across max_concurrent, "
            "across two runs, across child processes with other PYTHONHASHSEED values, and - on lending histories with equal loans "
            "and partially affordable auto-repay orders - across three id schemes whose ORDER differs.",
            "Bounded: flat prices, 1-unit orders, <=4 pairs, 3 bars per pair, deviation bound 1 (quick) / 2 (thorough); "
            "2 (quick) / 4 (thorough) extra hash seeds.", "DESIGN.md section 4, C03"),
}

_EX_TECH = ("explicit-state breadth-first search over operation histories of the real backtesting Exchange (state = "
            "canonical key, de-duplicated; every transition replayed on a fresh real exchange), with lasso histories "
            "for long runs and a conformance replay of the fast driver against the public-API driver")
_EX_NOTE = ("Bounded: amounts 1..5 units, price grid {30,33.37,90,100,110,300}, volumes giving 0/1/2.5/2.75/4/10 units of liquidity, "
            "configurations K0..K34 (fee x liquidity x lending x precision incl. per-pair / per-symbol / default-only x balances x 1-3 pairs), depth 3-4 (quick) / "
            "4-5 (thorough), lassos up to 240 steps. The synchronous driver (bars delivered by calling the exchange's "
            "bar handler directly) is trusted only as far as the conformance scenarios and the per-violation public-API "
            "replay validate it.")


def _ex(text):
    return (_EX_TECH, text, _EX_NOTE, "DESIGN.md sections 2.3, 2.4, 3")


CHECKS.update({
    "C01": _ex("Ledger oracle (total = initial + signed fills - fees - interest paid, per symbol, exact; no fill outside a "
               "bar; totals unchanged by place/cancel/loan/repay-principal) on every transition of the BFS."),
    "C02": _ex("Solvency oracle (available, hold, borrowed >= 0; total formula; borrowed = sum of open loan principals, "
               "including loan amounts off the precision grid) on every transition of the BFS."),
    "C05": _ex("Lifecycle oracle (monotone fills, open <=> not filled/cancelled/fill-or-kill, closed orders frozen, every "
               "listing equals the filter of all created orders, one event per acceptance/fill/closure with the right "
               "timestamp, last event = final info) on every transition, plus lasso histories of up to 240 steps on one "
               "and two pairs that re-index the open-order list many times."),
    "C06": _ex("Reservation-table oracle (hold per symbol = sum of the open orders' remaining reservations computed "
               "independently from the statement; no open order => no hold; hold <= balance) on every transition, plus an "
               "exhaustive acceptance-boundary enumeration (accepted with exactly the reservation, rejected with one unit "
               "less) over order types x sides x amounts x awkward prices x 7 fee schemes x 4-6 precisions."),
    "C07": _ex("Before/after snapshot oracle on every transition whose API call raises (validation, hold, borrowing incl. "
               "second loan failing, margin rule, repayment, cancel of closed/unknown, no lending strategy)."),
    "C08": _ex("Liquidity-budget oracle per (pair, bar) with turn order = acceptance order, fill-or-kill orders not filled "
               "beyond what is left, and precision-grid oracle on every fill delta, fee and reported balance, on every "
               "transition; liquidity-focused alphabets (1 / 2.5 / 2.75 / 10 units per bar, 3-5 unit orders)."),
    "C10": _ex("Margin oracle on every granted loan (explicit or auto-borrow): equity in the most favourable reading >= "
               "requirement x borrowed value at last closes; no lending strategy => every borrow fails; empty, tiny, zero-"
               "equity and ample accounts, requirement 0 / 0.5 / 1 / 2, lending-focused alphabets with price jumps."),
    "C11": _ex("Loan oracle on every transition (exact-rational interest formula truncated to precision, repay debits "
               "principal + interest, closed/unknown loans cannot be repaid, who may close a loan), plus an interest "
               "grid (percentages x periods x minimums x interest symbols x precisions x principals x price paths x ages "
               "0..12, daily and sub-second steps), repayments retried after a refusal, and a differential decision of largest-first repayment (auto-repay order vs explicit repayments in "
               "descending principal, all tie orders)."),
})

CHECKS.update({
    "C04": ("bounded exhaustive input-shape enumeration (all weak orderings of O/H/L/C/limit/stop on a k-level grid x "
            "volumes x follow-up bars) against the real Exchange",
            "Every order type x side x amount x limit/stop on a 3-level (quick) / 5-level (thorough) price grid x every "
            "valid OHLC of the first bar x volumes {0, fractional liquidity, exact, ample} x second (and third) bar shapes "
            "and volumes x 6 liquidity/precision/fee configurations, each executed on the real exchange; per-fill oracle "
            "(limit respected up to quote rounding, bar reaches limit, stop reached before trading, never better than the "
            "bar extreme, market/stop inside range and never better than open/stop) plus completeness with infinite "
            "liquidity.",
            "Bounded: grid levels, amounts 1 and 3 units, 2 (quick) / 3 (thorough) bars after acceptance, ample funds. "
            "Fills are read as deltas of the public OrderInfo across a bar delivered to the exchange's bar handler.",
            "DESIGN.md section 3, C04"),
    "C09": ("bounded exhaustive enumeration of all partial-fill compositions x price sequences x fee parameters against "
            "the real Exchange",
            "Every composition of N <= 5 (quick) / 7 (thorough) units into partial fills x fill-price sequences from an "
            "awkward set x 6 percentages x 4 minimum fees x 3 quote precisions x 2 base precisions x side; after EVERY fill "
            "total fees = ceil(max(pct x total quote, min)) exactly, fee symbol = quote, never negative, none without a "
            "trade, none with the no-fee scheme.",
            "Bounded: N, the price and parameter sets listed in the check. Partial fills are produced with a 100%-volume, "
            "zero-impact liquidity model.", "DESIGN.md section 3, C09"),
    "C20": ("bounded exhaustive enumeration of request arrival sequences against the real limiter under a substituted clock, "
            "compared with an exact-rational reference bucket",
            "Every arrival sequence of <= 5 (quick) / 6 (thorough) requests with gaps {0, 1/4, 1/2, 1, 2, 5, 20} periods x "
            "tokens per period {0.5, 1, 2, 3} x period {1, 2, 5} x initial tokens {0, 1, 3, 5}: waits >= 0, the window bound "
            "for every pair of requests, and every wait equal to the exact-rational textbook bucket's.",
            "Bounded: sequence length and the parameter grids; float results compared within 1e-9.",
            "DESIGN.md section 4, C20"),
})

CHECKS.update({
    "C19": ("bounded exhaustive enumeration of CSV files (rows x orders x encodings x sources) and of trade sequences on a "
            "virtual clock against the real sources",
            "Every CSV file of <=2 (quick) / <=3 (thorough) rows over a 45-row alphabet in every order x 6 encodings x sort "
            "on/off x 6 source variants (events in bijection with non-zero-volume rows, exact values, when = start + "
            "period, sorted when requested); every OHLC 4-tuple on a 3-level grid through Bar's constructor; every "
            "sequence of <=5 (quick) / <=6 (thorough) steps (trade at one of 8 window offsets incl. the last "
            "millisecond's tail, or 'let the window flush') through the real RealTimeTradesToBar.main() on a virtual "
            "clock, bar duration 1/60 s, flush delay 0/0.5, skip-first on/off, against a dict window->trades reference.",
            "Bounded: row alphabet, file length, step depth; BOM-less UTF-16/32 excluded (not self-describing).",
            "DESIGN.md section 4, C19"),
})

CHECKS.update({
    "C16": ("bounded exhaustive input enumeration through the real Binance/Bitstamp clients over a loopback HTTP server that "
            "verifies signatures from the transmitted bytes",
            "Every signed endpoint of both clients (spot, cross and isolated margin: orders, OCO, query, cancel, open orders, "
            "trades, account, transfers, listen keys; Bitstamp: balances, open orders, order status, cancel, market/limit/"
            "instant orders, websocket token) x for each free-form string argument every printable ASCII character in first / "
            "middle / last position and pairs of URL-special characters (all ordered pairs in thorough) x decimals of several "
            "exponents; plus decimal keyword arguments of every exponent form and throttled clients on a clock that only "
            "advances when the client sleeps (timestamp current at send time); Bitstamp nonces pairwise distinct.",
            "Loopback HTTP without TLS, production Host names through a custom resolver, time patched in the signing modules. "
            "Characters outside printable ASCII are not enumerated.", "DESIGN.md section 4, C16"),
    "C17": ("bounded exhaustive input enumeration: outbound through the real clients over the loopback server, inbound through "
            "every decoding property of every wrapper class",
            "Outbound: 32 order / transfer entry points (exchange objects and raw clients) x 175 decimals c x 10^e (e in "
            "-12..12): plain fixed-point notation, numeric equality, unset options absent, endpoint/side/symbol/type per "
            "table. Inbound: 54 wrapper entries, 204 decimal properties x 175 decimals in both notations, 27 ms-timestamp "
            "properties x every ms of chosen seconds + year boundaries 2010-2100, 6 us-timestamp properties, JSON-number "
            "fields, 22 status properties x every status of the code's tables, and exact per-asset sums of commissions / "
            "filled amounts over every sequence of <=4 (quick) / <=5 (thorough) trades.",
            "Statuses newer than the code's tables are outside the alphabet (documentation cannot be consulted offline). The "
            "wrapper table (worlds/payloads.py) was audited by introspection for completeness.", "DESIGN.md section 4, C17"),
    "C18": ("exhaustive environment-sequence exploration of the real websocket clients with a fake session on a virtual "
            "event loop",
            "Every sequence of <=4 (quick) / <=5 (thorough) environment actions (channel message, unknown channel, garbage, "
            "binary frame, ack / subscription error, reconnect request, clean close, abrupt drop, listen-key expiry, connect "
            "failure, HTTP failure, slow HTTP / slow send, channel registration, time passing) for a generic client, Binance "
            "(under a real RealtimeDispatcher so that keep-alive jobs run), Bitstamp public and private; oracle: re-"
            "subscription on the live connection, convergence to all-channels-subscribed after a fault-free suffix, routing "
            "counts per source, back-off between connection attempts, listen-key refresh gaps.",
            "Fake aiohttp session (ws_connect/post/put), virtual clocks; the server acts only at client-quiescent points, "
            "0.06 virtual s apart.", "DESIGN.md section 4, C18"),
})
NOT_YET = "check not built yet (see DESIGN.md section 7 for the build order); no claim is made"


# what round 3 (blind seeds + white-box reviews, DESIGN.md section 8.7) added to the scenario spaces / oracles
ROUND3 = {
    "C01": "Round 3: configurations in which a pair trades on a finer grid than its symbols' own precision (K24, K25). Round 6: an "
           "account that starts with a debt (negative initial balance) next to margin loans in the same symbol (K38).",
    "C02": "Round 3: get_balance(symbol) for every symbol (and unknown ones) and get_loans(is_open=True) compared with the "
           "plain listings on every transition; pair grid finer than the symbol grid. Round 4: the account is read by a job at "
           "each bar's own time (before the bar is processed) and before every action, in both drivers.",
    "C03": "Round 3: the hash seeds of the child processes are CHOSEN so that every two-element set of order operations, "
           "symbols and pairs is iterated in both orders, and the digest also covers ~2300 exchange histories with "
           "competing orders (both sides, all types) under fees, finite liquidity and lending. Round 4: ladder scenarios (up to "
           "250 open orders on one pair next to another pair with the same timestamps) across max_concurrent.",
    "C04": "Round 3: bars of other pairs sharing the order's base symbol (ETH/BTC) or quote symbol (BTC/USD), at any "
           "price, leave the order exactly as it is; library exceptions inside the driver are violations. Round 4: the pair's "
           "precision reconfigured after an order of the pair was processed.",
    "C05": "Round 3: every get_orders(pair, is_open) combination and the fields of get_open_orders() entries compared with "
           "get_orders(); all 3-cycles of a tiny alphabet x every phase of the open-list re-index (polls before the run); "
           "precision configured through default_pair_info only. Round 6: orders and cancellations made by a job scheduled between "
           "two bars (K39), in both drivers.",
    "C06": "Round 3: sells whose minimum fee exceeds the proceeds filled in pieces (K23), default_pair_info only (K27), "
           "stop-limit boundary with stop != limit.",
    "C07": "Round 3: roll-back of an auto-borrow request at its second loan with a minimum interest and the margin level at "
           "exactly 100% (K31; found a genuine defect, repaired). Round 5: loans whose interest cannot be priced yet (K37; a second "
           "genuine defect, repaired).",
    "C08": "Round 3: 1% volume limit (K28), default_pair_info only (K26), derived pair precisions with a finer base grid and "
           "amounts valid on both grids (K29), pair grid finer than the symbol grid (K24); fills are checked against the grid "
           "of THEIR pair.",
    "C09": "Round 3: rates that are not whole basis points (0.075, 12.345), the fee symbol on a cross pair quoted in BTC, "
           "precision through default_pair_info only or derived from the symbols, an order that does not trade pays nothing.",
    "C10": "Round 3: margin boundary probes (in every state of designated configurations the largest admissible loan plus "
           "one precision unit is requested, on a 10M account too), default next to per-symbol lending conditions (K30), "
           "auto-borrow orders without a lending strategy.",
    "C12": "Rounds 3-4: raising handlers that are functools.partial / callable instances at every stage, non-adjacent duplicate "
           "subscriptions (a, b, a), bound methods of several instances of one class, 0-2 catch-all handlers per stage, a job "
           "that pushes an event to a derived source (found a genuine defect, repaired), every started handler must finish.",
    "C13": "Rounds 3-4: 5-8 jobs beyond the last event in every insertion order, a job must have finished before a later "
           "event starts (end records), jobs scheduling EARLIER jobs from every position with a run cap, equal-time clauses "
           "made strict (false alarm removed).",
    "C14": "Rounds 3-4: catch-all handlers in all three stages, raising idle handlers, raising handlers AND jobs that are "
           "partials / callable instances on both dispatchers, application-installed log record factory, orphan handlers after "
           "run() returned, nothing started after the run has to end, injection window covering every run.",
    "C15": "Rounds 3-4: the real utc_now() body runs (the clock is substituted underneath it, also under non-UTC local time "
           "zones), >= 3 jobs in non-heap-sorted insertion orders incl. far-future ones, jobs at one instant, catch-all handlers "
           "must not receive dropped out-of-order events.",
    "C16": "Rounds 3-4: every ordered pair (and class triple) of requests on ONE client, nonces across client objects and "
           "across restarts, every sleep path virtual (watchdog), connections dropped after the request was read (retries must "
           "not replay nonce / timestamp / signature), caller-supplied sessions.",
    "C17": "Rounds 3-4: exact expected parameter dicts (every option the caller set, nothing extra), decimal extra keyword "
           "arguments (found a genuine defect, repaired), sends under reduced-precision decimal contexts and > 28 digits, "
           "account-level read API against a model exchange (all statuses, trades of partially filled / cancelled orders), "
           "independent status tables.",
    "C18": "Rounds 3-4: Binance through Exchange / WebsocketManager with spot, cross-margin, isolated-margin and two or three "
           "user-data streams; keep-alive per KEY to the issuer's own endpoint; reconnect requests must lead to a new subscribed "
           "connection; after listenKeyExpired the SAME connection survives and carries the new SUBSCRIBE; every connection the "
           "client gives up has a cause from the environment.",
    "C19": "Rounds 3-4: non-monotone prices and amounts with distinct subset sums, non-UTC tzinfo / all period strings / Yahoo "
           "timedelta, the Bitstamp aggregator and Exchange.subscribe_to_bar_events end to end, zero volume spellings, bars not "
           "emitted before the end of their window, durations 7 / 13 with unaligned starts.",
    "C20": "Rounds 3-4: callers cancelled while waiting (every subset, several instants), the real REST clients with a stub "
           "session, arrival instants off the dyadic grid and 3000-20000-request periodic patterns against the exact reference, "
           "read-only `tokens` observations between requests.",
    "C11": "Round 3: auto-repay on all four order types; positive oracle (an auto-repay order that traded and closed without "
           "repaying anything while a loan is repayable at that very moment, decided on a rebuilt copy); read-only API calls "
           "before every action and same-timestamp bars (values cached per instant); interest periods that are not whole "
           "steps; interest charged in the base symbol of a quote-symbol loan (K33; found a genuine defect, repaired); "
           "get_loan / get_loans filters.",
}


def main():
    props = [json.loads(l) for l in open(os.path.join(VERIF, "properties.jsonl"))]
    checks = []
    na = []
    for p in props:
        pid = p["id"]
        if pid in CHECKS:
            tech, text, note, ref = CHECKS[pid]
            if pid in ROUND3:
                text = text + " " + ROUND3[pid]
            checks.append(dict(
                property_id=pid, quick_cmd=f"./run {pid} quick", thorough_cmd=f"./run {pid} thorough",
                evidence_file=f"/verif/evidence/{pid}.json", replay_cmd_template=f"./run {pid} --replay {{path}}",
                engine="mc", level_claimed=dict(category="model_checking", text=text, design_ref=ref),
                level_note=note, technique=tech))
        else:
            na.append(dict(property_id=pid, reason=NOT_YET))
    manifest = dict(
        version=1,
        setup_cmd="./run selftest",
        hooks=dict(guard="BASANA_VERIF", enable="no source hooks are needed: the harness injects seams by patching module "
                   "attributes (clock, time.time, sessions) from its own process; BASANA_VERIF=1 is exported by ./run "
                   "for completeness", baseline_off_cmd="cd /repo && /venv/bin/python -m pytest -ra -q -p no:cacheprovider "
                   "--timeout=900 --continue-on-collection-errors", source_commits=[], add_only=True),
        engines=[dict(name="mc", path="/verif/mc", serves_properties=sorted(CHECKS),
                      kind_free_text="hand-written explicit-state / stateless explorers for Python: virtual asyncio "
                      "loop, deviation-bounded chooser DFS, BFS over operation histories with replay, bounded input "
                      "enumeration; all run the real basana code")],
        checks=checks,
        notes="All checks explore the real implementation (no separate model); see DESIGN.md. known_findings.json lists "
              "known and fixed findings.",
        not_applicable=na,
    )
    path = os.path.join(VERIF, "MANIFEST.json")
    with open(path, "w") as f:
        json.dump(manifest, f, indent=1)
        f.write("\n")
    try:
        import jsonschema
        schema = json.load(open("/root/.vp/MANIFEST.schema.json"))
        jsonschema.validate(manifest, schema)
        print("MANIFEST.json valid;", len(checks), "checks,", len(na), "not applicable")
    except ImportError:
        print("written (jsonschema not available for validation)")


if __name__ == "__main__":
    main()

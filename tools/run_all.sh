#!/bin/sh
# Runs every registered quick (or thorough) check on the current tree; prints exit code and wall time per check.
tier="${1:-quick}"
cd "$(dirname "$0")/.." || exit 2
fail=0
for id in $(python3 -c "import json; print(' '.join(c['property_id'] for c in json.load(open('MANIFEST.json'))['checks']))"); do
  s=$(date +%s)
  out=$(./run "$id" "$tier" 2>&1); rc=$?
  e=$(date +%s)
  echo "$id rc=$rc $((e-s))s $(echo "$out" | grep -c VIOLATION) violations"
  [ "$rc" != 0 ] && { echo "$out" | tail -5; fail=1; }
done
exit $fail

#!/bin/sh
# usage: tools/mutant.sh <patch> <ID> [tier]   apply patch to /repo, run check, always revert. Prints the check's exit code.
set -u
patch="$(readlink -f "$1")"; id="$2"; tier="${3:-quick}"
cd /repo || exit 2
if ! git diff --quiet; then echo "/repo has uncommitted changes"; exit 2; fi
git apply "$patch" || { echo "patch does not apply"; exit 2; }
out=$(mktemp)
evd=$(mktemp -d)
(cd /verif && VERIF_EVIDENCE_DIR="$evd" ./run "$id" "$tier" > "$out" 2>&1); rc=$?
rm -rf "$evd"
git -C /repo checkout -- .
grep -E "VIOLATION|KNOWN-FINDING|HARNESS" "$out" | head -6
tail -1 "$out" | cut -c1-200
rm -f "$out"
echo "check-exit=$rc"
[ "$rc" = 1 ]

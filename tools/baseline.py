#!/venv/bin/python
"""Runs the repository's pinned test suite on a tree (default /repo) and compares with BASELINE.json's stable_pass."""
import json
import os
import subprocess
import sys
import tempfile
import xml.etree.ElementTree as ET

repo = sys.argv[1] if len(sys.argv) > 1 else "/repo"
base = json.load(open("/root/.vp/BASELINE.json"))
stable = set(base["stable_pass"])
with tempfile.TemporaryDirectory() as d:
    xml = os.path.join(d, "r.xml")
    env = dict(os.environ)
    env.pop("BASANA_VERIF", None)
    subprocess.run(["/venv/bin/python", "-m", "pytest", "-q", "-p", "no:cacheprovider", "--timeout=900",
                    "--continue-on-collection-errors", "--junitxml=" + xml], cwd=repo, env=env,
                   stdout=subprocess.DEVNULL, stderr=subprocess.DEVNULL)
    passed = set()
    for tc in ET.parse(xml).iter("testcase"):
        if not any(c.tag in ("failure", "error", "skipped") for c in tc):
            passed.add(tc.get("classname") + "::" + tc.get("name"))
missing = sorted(stable - passed)
print(f"{len(passed & stable)}/{len(stable)} stable tests pass")
for m in missing:
    print("  NOT PASSING:", m)
sys.exit(1 if missing else 0)

#!/bin/sh
# usage: tools/verify_seed.sh <ID> <k>
# Confirms a sub-agent's change in its scratch worktree /tmp/wt/<ID>: patch applies, demo fails with it and passes
# without it, the repository's pinned suite still passes with it. Copies it to /verif/seeded/<ID>-<k>/ with a log.
id="$1"; k="$2"; dk="${3:-$2}"; wt=/tmp/wt/$id; src=/tmp/wt/$id-out; dst=/verif/seeded/$id-$dk
mkdir -p "$dst"; log="$dst/verify.log"; : > "$log"
cd "$wt" || exit 2
git checkout -q -- . ; git clean -fdq
cp "$src/demo$k.py" "$wt/demo$k.py"
/venv/bin/python "demo$k.py" >> "$log" 2>&1; clean_rc=$?
git apply "$src/patch$k.diff" || { echo "patch does not apply" >> "$log"; exit 2; }
/venv/bin/python "demo$k.py" >> "$log" 2>&1; mut_rc=$?
rm -f "$wt/demo$k.py"
/venv/bin/python /verif/tools/baseline.py "$wt" >> "$log" 2>&1; base_rc=$?
git checkout -q -- . ; git clean -fdq
cp "$src/patch$k.diff" "$dst/patch.diff"; cp "$src/demo$k.py" "$dst/demo.py"; cp "$src/notes$k.md" "$dst/notes.md" 2>/dev/null
echo "$id-$dk demo_clean_rc=$clean_rc demo_mutant_rc=$mut_rc baseline_rc=$base_rc" | tee -a "$log"

"""C12 clean-tree observation (I1): an event pushed to a derived source by a SCHEDULED JOB is handled with the dispatcher
clock of the NEXT event time, not with its own time.

Public API only. Events at 10 and 20 on one source; a job scheduled for 15 pushes Event(when=dispatcher.now()) (= 15) to a
second, derived source. BacktestingDispatcher._dispatch_loop computed next_dt = 20 before it ran the job, so the derived
event is popped in the batch of 20 (EventMultiplexer.pop_while(20)) and its handler runs with now() == 20.

Statement of C12: "While a handler runs the dispatcher clock equals the event's time" (no qualifier); quantifier of C12:
"events pushed to derived sources by handlers" (a scheduled job is not a handler in the library's vocabulary).

exit 0 = the handler saw the event's own time (since /repo 20c027b); exit 1 = it saw another clock (the tree before 20c027b).
Run: PYTHONPATH=/repo /venv/bin/python /verif/notes/I1-defect-1.py
"""
import asyncio
import datetime
import sys

import basana as bs

T0 = datetime.datetime(2020, 1, 1, tzinfo=datetime.timezone.utc)


def T(s):
    return T0 + datetime.timedelta(seconds=s)


async def main():
    d = bs.backtesting_dispatcher()
    src = bs.FifoQueueEventSource(events=[bs.Event(T(10)), bs.Event(T(20))])
    derived = bs.FifoQueueEventSource()
    seen = []

    async def on_event(e):
        seen.append(("source", e.when, d.now()))

    async def on_derived(e):
        seen.append(("derived", e.when, d.now()))

    async def job():
        seen.append(("job", T(15), d.now()))
        derived.push(bs.Event(d.now()))

    d.subscribe(src, on_event)
    d.subscribe(derived, on_derived)
    d.schedule(T(15), job)
    await d.run(stop_signals=[])
    bad = 0
    for what, when, now in seen:
        flag = "" if when == now else "   <-- clock != event time"
        print(f"{what:8s} time={when.time()} handled with now()={now.time()}{flag}")
        if what != "job" and when != now:
            bad = 1
    return bad


if __name__ == "__main__":
    sys.exit(asyncio.run(main()))

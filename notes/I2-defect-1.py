"""I2 defect 1 (C17 clause 1): decimal-valued EXTRA keyword arguments of the order entry points go out in exponent notation.

Public API only: the Binance / Bitstamp exchange objects and raw clients talk to a loopback HTTP server that records what it
receives (base_url overridden through config_overrides). Amounts and prices passed as named arguments are formatted with
basana.core.helpers.decimal_to_str (plain fixed-point); amounts and prices passed through **kwargs (icebergQty,
limitIcebergQty, trailingDelta, Bitstamp limit_price / daily_order ...) are str()-formatted by urlencode, so
Decimal("0.00000085") is transmitted as 8.5E-7 and Decimal("1E+3") as 1E%2B3.

Run: cd /repo && /venv/bin/python /verif/notes/I2-defect-1.py      (exit 1 = defect present, 0 = absent)
"""
import asyncio
import os
import re
import sys
import urllib.parse
from decimal import Decimal

sys.path.insert(0, os.environ.get("BASANA_REPO", "/repo"))

from aiohttp import web  # noqa: E402
import basana as bs  # noqa: E402
from basana.external.binance import exchange as binance_exchange  # noqa: E402
from basana.external.bitstamp import client as bitstamp_client, exchange as bitstamp_exchange  # noqa: E402

PLAIN = re.compile(r"^\d+(\.\d+)?$")
received = []


async def handler(request):
    body = (await request.read()).decode()
    received.append(dict(urllib.parse.parse_qsl(body, keep_blank_values=True)))
    return web.json_response({"orderId": 1, "id": "1", "type": "0", "price": "1", "amount": "1",
                              "datetime": "2024-01-01 00:00:00.000000", "orderListId": 1})


async def main():
    app = web.Application()
    app.router.add_route("*", "/{tail:.*}", handler)
    runner = web.AppRunner(app, access_log=None)
    await runner.setup()
    site = web.TCPSite(runner, "127.0.0.1", 0)
    await site.start()
    port = site._server.sockets[0].getsockname()[1]
    override = {"api": {"http": {"base_url": f"http://127.0.0.1:{port}/"}}}
    d = bs.realtime_dispatcher()
    be = binance_exchange.Exchange(d, "key", "secret", config_overrides=override)
    se = bitstamp_exchange.Exchange(d, "key", "secret", config_overrides=override)
    sc = bitstamp_client.APIClient("key", "secret", config_overrides=override)
    pair_b, pair_s = bs.Pair("BTC", "USDT"), bs.Pair("BTC", "USD")
    small, big = Decimal("0.00000085"), Decimal("1E+3")
    calls = [
        ("binance spot create_limit_order(icebergQty=)", "icebergQty", small,
         lambda v: be.spot_account.create_limit_order(bs.OrderOperation.BUY, pair_b, Decimal("1"), Decimal("2"), icebergQty=v)),
        ("binance cross create_oco_order(limitIcebergQty=)", "limitIcebergQty", small,
         lambda v: be.cross_margin_account.create_oco_order(bs.OrderOperation.SELL, pair_b, Decimal("1"), Decimal("3"), Decimal("2"),
                                                            limitIcebergQty=v)),
        ("binance isolated create_market_order(icebergQty=)", "icebergQty", big,
         lambda v: be.isolated_margin_account.create_market_order(bs.OrderOperation.BUY, pair_b, amount=Decimal("1"), icebergQty=v)),
        # Bitstamp's own optional parameter of a limit order ("limit_price": price of the opposite order placed after execution);
        # the Exchange-level method uses that name for the order's price, so it is reachable through the raw client
        ("bitstamp APIClient.create_limit_order(limit_price=)", "limit_price", small,
         lambda v: sc.create_limit_order("sell", "btcusd", Decimal("1"), Decimal("2"), limit_price=v)),
        ("bitstamp create_market_order(some_amount=)", "some_amount", big,
         lambda v: se.create_market_order(bs.OrderOperation.BUY, pair_s, Decimal("1"), some_amount=v)),
    ]
    bad = 0
    try:
        for what, key, value, fn in calls:
            received.clear()
            await fn(value)
            got = received[-1].get(key)
            ok = got is not None and PLAIN.match(got) and Decimal(got) == value
            bad += 0 if ok else 1
            print(f"{'ok  ' if ok else 'BAD '} {what}: passed {value!r}, transmitted {key}={got!r}")
    finally:
        await runner.cleanup()
    print("DEFECT PRESENT" if bad else "defect absent")
    return 1 if bad else 0


if __name__ == "__main__":
    sys.exit(asyncio.run(main()))

"""Loopback HTTP world (DESIGN.md section 4, C16/C17): the real Binance / Bitstamp clients talk to an aiohttp.web server on
127.0.0.1 through a resolver that maps the production host names to the loopback port, so that the Host header and the
signed host are the production ones. The server records the raw request line, headers and body; verification uses those
bytes only."""
import hashlib
import hmac
import re
import types

import aiohttp
import aiohttp.abc
from aiohttp import web

KEY, SECRET = "the-key", "the-secret"
NOW = 1700000000.123


def patch_time():
    import basana.external.binance.client.base as bbase
    import basana.external.bitstamp.helpers as shelp
    fake = types.SimpleNamespace(time=lambda: NOW)
    bbase.time = fake
    shelp.time = fake


class Server:
    def __init__(self):
        self.reqs = []
        self.response = {"ok": True, "listenKey": "k", "orderId": 1, "token": "t", "user_id": 1}
        self.clock = None

    async def handler(self, request):
        body = await request.read()
        self.reqs.append(dict(method=request.method, raw_path=request.raw_path, arrived=self.clock() if self.clock else None,
                              headers={k: v for k, v in request.headers.items()}, body=body,
                              host=request.headers.get("Host")))
        return web.json_response(self.response)

    async def start(self):
        app = web.Application()
        app.router.add_route("*", "/{tail:.*}", self.handler)
        self.runner = web.AppRunner(app, access_log=None)
        await self.runner.setup()
        site = web.TCPSite(self.runner, "127.0.0.1", 0)
        await site.start()
        self.port = site._server.sockets[0].getsockname()[1]

    async def stop(self):
        await self.runner.cleanup()


def resolver(port):
    class R(aiohttp.abc.AbstractResolver):
        async def resolve(self, host, port_=0, family=0):
            return [{"hostname": host, "host": "127.0.0.1", "port": port, "family": 2, "proto": 0, "flags": 0}]

        async def close(self):
            pass
    return R()


BINANCE_URL = {"api": {"http": {"base_url": "http://api.binance.com/"}}}
BITSTAMP_URL = {"api": {"http": {"base_url": "http://www.bitstamp.net/"}}}


def verify_binance(req, signed=True, now=None):
    """Like the exchange: HMAC-SHA256(secret, raw query without '&signature=...' || raw body) == transmitted signature."""
    path, _, query = req["raw_path"].partition("?")
    if req["headers"].get("X-MBX-APIKEY") != KEY:
        return "api key header missing"
    if not signed:
        return None
    m = re.search(r"(^|&)signature=([0-9a-f]+)$", query)
    if not m:
        return "no signature at the end of the query string"
    signed_part = query[:m.start()]
    payload = signed_part + req["body"].decode()
    exp = hmac.new(SECRET.encode(), payload.encode(), hashlib.sha256).hexdigest()
    if exp != m.group(2):
        return f"signature does not verify over the transmitted bytes {payload!r}"
    ts = re.search(r"(^|&)timestamp=(\d+)", signed_part)
    if not ts or int(ts.group(2)) != int(round((NOW if now is None else now) * 1000)):
        return f"timestamp {ts and ts.group(2)} is not the current time {int(round((NOW if now is None else now) * 1000))}"
    return None


def verify_bitstamp(req, now=None):
    """v2: HMAC over 'BITSTAMP key' + method + host + path + query + content type + nonce + timestamp + version + body."""
    h = req["headers"]
    path, _, query = req["raw_path"].partition("?")
    msg = (h.get("X-Auth", "") + req["method"] + (req["host"] or "") + path + query + h.get("Content-Type", "") +
           h.get("X-Auth-Nonce", "") + h.get("X-Auth-Timestamp", "") + h.get("X-Auth-Version", "") + req["body"].decode())
    exp = hmac.new(SECRET.encode(), msg.encode(), hashlib.sha256).hexdigest()
    if h.get("X-Auth") != "BITSTAMP " + KEY:
        return "X-Auth does not carry the key"
    if exp != h.get("X-Auth-Signature"):
        return f"signature does not verify over the transmitted bytes {msg!r}"
    if h.get("X-Auth-Timestamp") != str(int(round((NOW if now is None else now) * 1000))):
        return f"timestamp {h.get('X-Auth-Timestamp')} is not the current time {int(round((NOW if now is None else now) * 1000))}"
    if h.get("X-Auth-Version") != "v2":
        return "version"
    if not req["body"] and "Content-Type" in h:
        return "Content-Type present without a body"
    if req["host"] != "www.bitstamp.net":
        return f"Host header {req['host']}"
    nonce = h.get("X-Auth-Nonce", "")
    if not re.fullmatch(r"[0-9a-z-]{36}", nonce):
        return f"nonce {nonce!r} is not 36 lower-case characters"
    return None

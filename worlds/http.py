"""Loopback HTTP world (DESIGN.md section 4, C16/C17): the real Binance / Bitstamp clients talk to an aiohttp.web server on
127.0.0.1 through a resolver that maps the production host names to the loopback port, so that the Host header and the
signed host are the production ones. The server records the raw request line, headers and body; verification uses those
bytes only.

Time seam: `TimeSeam` installs one virtual clock (mc.vtime.VirtualTime, a full proxy of the `time` module whose
time / time_ns / monotonic / perf_counter all read the same integer-nanosecond clock) as the attribute `time` of EVERY loaded
basana module that imported the time module (or one of its clock functions), whichever module the library reads the clock in
and under whichever name. With `virtual_sleep=True` it also
makes every sleep of the library advance that clock instead of waiting: `asyncio` attributes of the basana modules become a
ModuleProxy with a virtual `sleep`, and `asyncio.sleep` itself is replaced, for callers that live in a basana module only, so
that TokenBucketLimiter.wait() or a helper module sleeping on behalf of a client is virtual too. Nothing is looked up as
`module.attribute` without a default: removing an unused import from the library cannot crash the harness.

Server behaviours: every request is answered by `route(req)` (default: one fixed JSON document); `behaviour(index, req)` may
return "drop": the server reads the whole request, records it, and closes the connection without answering (what a load
balancer does to a keep-alive connection) - the client sees aiohttp.ServerDisconnectedError.
"""
import asyncio as _real_asyncio
import hashlib
import hmac
import re
import sys
import time as _real_time

import aiohttp
import aiohttp.abc
from aiohttp import web

from mc.vtime import ModuleProxy, VirtualTime

KEY, SECRET = "the-key", "the-secret"
NOW = 1700000000.123
NOW_NS = 1700000000123000000
TS_TOLERANCE_MS = 1   # round() vs truncation of the same clock reading are both "current"


class Clock:
    """Virtual wall clock with integer nanoseconds (so that time() and time_ns() agree exactly)."""

    def __init__(self, ns=NOW_NS):
        self.ns = ns

    @property
    def now(self):
        return self.ns / 1e9

    def advance(self, seconds):
        if seconds and seconds > 0:
            self.ns += int(round(seconds * 1e9))


class _ExactVirtualTime(VirtualTime):
    def __init__(self, clock):
        super().__init__(lambda: clock.now, clock.advance)
        self._clock = clock

    def time_ns(self):
        return self._clock.ns

    def monotonic_ns(self):
        return self._clock.ns

    def perf_counter_ns(self):
        return self._clock.ns


_REAL_SLEEP = _real_asyncio.sleep


def _basana_modules():
    return [m for n, m in list(sys.modules.items()) if m is not None and (n == "basana" or n.startswith("basana."))]


class TimeSeam:
    """Installs a virtual clock (and optionally virtual sleeps) into the library; restore() undoes everything."""

    def __init__(self, clock=None, virtual_sleep=False):
        # the modules that read the clock / sleep today; everything else that is loaded is covered generically below
        import basana.core.token_bucket  # noqa: F401
        import basana.external.binance.client  # noqa: F401
        import basana.external.binance.exchange  # noqa: F401
        import basana.external.bitstamp.client  # noqa: F401
        import basana.external.bitstamp.exchange  # noqa: F401
        self.clock = clock or Clock()
        self.vtime = _ExactVirtualTime(self.clock)
        self.slept = 0.0          # virtual seconds slept by the library
        self._saved = []
        self._saved_global_sleep = None
        clock_fns = {getattr(_real_time, n): getattr(self.vtime, n)
                     for n in ("time", "time_ns", "monotonic", "monotonic_ns", "perf_counter", "perf_counter_ns")}
        proxy = ModuleProxy(_real_asyncio, sleep=self._virtual_sleep) if virtual_sleep else None
        for mod in _basana_modules():
            for name, cur in list(vars(mod).items()):
                new = None
                if cur is _real_time or isinstance(cur, VirtualTime):
                    new = self.vtime                      # import time
                elif any(cur is fn for fn in clock_fns):
                    new = clock_fns[cur]                  # from time import time / time_ns / ...
                elif isinstance(getattr(cur, "__self__", None), VirtualTime) and hasattr(self.vtime, getattr(cur, "__name__", "")):
                    new = getattr(self.vtime, cur.__name__)   # the same, already virtualised by an earlier seam
                elif virtual_sleep and (cur is _real_asyncio or isinstance(cur, ModuleProxy)):
                    new = proxy                           # import asyncio
                elif virtual_sleep and cur is _REAL_SLEEP:
                    new = self._virtual_sleep             # from asyncio import sleep
                if new is not None:
                    self._saved.append((mod, name, cur))
                    setattr(mod, name, new)
        if virtual_sleep:
            self._saved_global_sleep = _real_asyncio.sleep
            _real_asyncio.sleep = self._dispatching_sleep

    async def _virtual_sleep(self, delay, result=None):
        if delay and delay > 0:
            self.clock.advance(delay)
            self.slept += delay
        await _REAL_SLEEP(0)
        return result

    def _dispatching_sleep(self, delay, result=None):
        # asyncio.sleep for the whole process while the seam is installed: virtual for the library, real for everything else
        # (aiohttp's own sleep(0) / server housekeeping must not move the clock)
        caller = sys._getframe(1).f_globals.get("__name__", "")
        if caller == "basana" or caller.startswith("basana."):
            return self._virtual_sleep(delay, result)
        return _REAL_SLEEP(delay, result)

    def restore(self):
        for mod, name, cur in reversed(self._saved):
            setattr(mod, name, cur)
        self._saved = []
        if self._saved_global_sleep is not None:
            _real_asyncio.sleep = self._saved_global_sleep
            self._saved_global_sleep = None


_FROZEN = None


def patch_time():
    """Frozen clock at NOW in every basana module (idempotent; stays installed for the life of the worker process)."""
    global _FROZEN
    if _FROZEN is not None:
        _FROZEN.restore()
    _FROZEN = TimeSeam(Clock(NOW_NS))
    return _FROZEN


class Server:
    def __init__(self):
        self.reqs = []
        self.response = {"ok": True, "listenKey": "k", "orderId": 1, "token": "t", "user_id": 1}
        self.clock = None        # callable -> virtual seconds, stamped on every received request
        self.route = None        # callable(req) -> (http status, JSON document) or None for the default answer
        self.behaviour = None    # callable(arrival index, req) -> "ok" | "drop"
        self.received = 0

    async def handler(self, request):
        body = await request.read()
        req = dict(method=request.method, raw_path=request.raw_path, arrived=self.clock() if self.clock else None,
                   headers={k: v for k, v in request.headers.items()}, body=body, host=request.headers.get("Host"),
                   index=self.received, dropped=False)
        self.received += 1
        self.reqs.append(req)
        if self.behaviour is not None and self.behaviour(req["index"], req) == "drop":
            # the whole request was received; the connection goes away without a single byte of response
            req["dropped"] = True
            if request.transport is not None:
                request.transport.close()
            return web.Response()
        if self.route is not None:
            ans = self.route(req)
            if ans is not None:
                status, doc = ans
                return web.json_response(doc, status=status)
        return web.json_response(self.response)

    async def start(self):
        app = web.Application()
        app.router.add_route("*", "/{tail:.*}", self.handler)
        self.runner = web.AppRunner(app, access_log=None)
        await self.runner.setup()
        site = web.TCPSite(self.runner, "127.0.0.1", 0)
        await site.start()
        self.port = site._server.sockets[0].getsockname()[1]

    async def stop(self):
        await self.runner.cleanup()


def resolver(port):
    class R(aiohttp.abc.AbstractResolver):
        async def resolve(self, host, port_=0, family=0):
            return [{"hostname": host, "host": "127.0.0.1", "port": port, "family": 2, "proto": 0, "flags": 0}]

        async def close(self):
            pass
    return R()


BINANCE_URL = {"api": {"http": {"base_url": "http://api.binance.com/"}}}
BITSTAMP_URL = {"api": {"http": {"base_url": "http://www.bitstamp.net/"}}}


def _current(ts_text, now):
    exp = int(round((NOW if now is None else now) * 1000))
    return ts_text is not None and re.fullmatch(r"\d+", ts_text) and abs(int(ts_text) - exp) <= TS_TOLERANCE_MS, exp


def verify_binance(req, signed=True, now=None, secret=None):
    """Like the exchange: HMAC-SHA256(secret, raw query without '&signature=...' || raw body) == transmitted signature."""
    path, _, query = req["raw_path"].partition("?")
    if req["headers"].get("X-MBX-APIKEY") != KEY:
        return "api key header missing"
    if not signed:
        return None
    m = re.search(r"(^|&)signature=([0-9a-f]+)$", query)
    if not m:
        return "no signature at the end of the query string"
    signed_part = query[:m.start()]
    payload = signed_part + req["body"].decode()
    exp = hmac.new((secret or SECRET).encode(), payload.encode(), hashlib.sha256).hexdigest()
    if exp != m.group(2):
        return f"signature does not verify over the transmitted bytes {payload!r}"
    ts = re.search(r"(^|&)timestamp=(\d+)", signed_part)
    ok, exp_ms = _current(ts and ts.group(2), now)
    if not ok:
        return f"timestamp {ts and ts.group(2)} is not the current time {exp_ms}"
    return None


def verify_bitstamp(req, now=None, secret=None):
    """v2: HMAC over 'BITSTAMP key' + method + host + path + query + content type + nonce + timestamp + version + body."""
    h = req["headers"]
    path, _, query = req["raw_path"].partition("?")
    msg = (h.get("X-Auth", "") + req["method"] + (req["host"] or "") + path + query + h.get("Content-Type", "") +
           h.get("X-Auth-Nonce", "") + h.get("X-Auth-Timestamp", "") + h.get("X-Auth-Version", "") + req["body"].decode())
    exp = hmac.new((secret or SECRET).encode(), msg.encode(), hashlib.sha256).hexdigest()
    if h.get("X-Auth") != "BITSTAMP " + KEY:
        return "X-Auth does not carry the key"
    if exp != h.get("X-Auth-Signature"):
        return f"signature does not verify over the transmitted bytes {msg!r}"
    ok, exp_ms = _current(h.get("X-Auth-Timestamp"), now)
    if not ok:
        return f"timestamp {h.get('X-Auth-Timestamp')} is not the current time {exp_ms}"
    if h.get("X-Auth-Version") != "v2":
        return "version"
    if not req["body"] and "Content-Type" in h:
        return "Content-Type present without a body"
    if req["host"] != "www.bitstamp.net":
        return f"Host header {req['host']}"
    nonce = h.get("X-Auth-Nonce", "")
    if not re.fullmatch(r"[0-9a-z-]{36}", nonce):
        return f"nonce {nonce!r} is not 36 lower-case characters"
    return None

"""Declarative table of the JSON wrapper classes of the Binance / Bitstamp integrations.

Every entry of ``WRAPPERS`` describes how one wrapper class (or one way of reaching a wrapper, e.g. through a
websocket event source) decodes an exchange payload:

  name           unique id, e.g. "binance.common.Trade"
  make           callable(payload_dict) -> wrapper instance. The payload is ALWAYS a dict; when the class needs
                 something else (pair, list of trades, websocket envelope, fake http client) the helper builds it.
  payload        realistic base payload accepted by make (never mutated: always deep copy it first).
  decimals       {property path -> JSON path} the property returns Decimal(field) with no arithmetic.
  computed       [property names] Decimal (or int) properties that are the result of arithmetic (documentation only).
  ms_timestamps  {property path -> JSON path} integer millisecond timestamp decoded to an aware UTC datetime.
  us_timestamps  {property path -> JSON path} microsecond timestamp (str unless the base payload has an int).
  s_timestamps   {property path -> JSON path} second resolution timestamps (none exist in the current code).
  iso_timestamps {property path -> JSON path} (extra) "YYYY-MM-DD HH:MM:SS[.ffffff]" strings parsed as UTC datetimes.
  statuses       {property path -> {"path": JSON path, "table": {status string -> expected bool}}}
  skip_zero      [property paths] listed in decimals, but the property returns None when the value is zero
                 (helpers.get_optional_decimal(..., skip_zero=True)).
  optional       [property paths] (extra) listed in decimals, and the property returns None when the key is missing.
  co_set         {property path -> [JSON paths]} (extra) other fields that have to be set to the SAME value for the
                 wrapper to accept the payload (klines.Bar validates low <= open/close <= high in its constructor).
  float_fields   [JSON paths] (extra) fields that the real exchange sends as JSON numbers (not strings), so
                 Decimal(field) goes through a binary float. The base payload keeps the realistic float.
  eager          (extra) True if the values are decoded when the wrapper is built (mutating wrapper.json afterwards
                 has no effect), False if decoded lazily on property access.

Property paths are resolved with ``get_attr(obj, path)``: dotted attributes and [index] / [key] subscripts, e.g.
"bids[0].price", "order_update.fees[BTC]", "[0]".
JSON paths are lists of dict keys / list indexes and are written with ``set_path(payload, path, value)``.

Nothing here talks to the network; the few async code paths (websocket event sources, Exchange.get_bid_ask,
Exchange.get_pair_info) are driven synchronously with fake clients (no event loop is created).
"""

from decimal import Decimal
from types import SimpleNamespace
import copy
import datetime
import re
import urllib.parse

import basana
from basana.core import event as core_event
from basana.external.binance import (
    common as b_common, spot as b_spot, margin as b_margin, isolated_margin as b_isolated,
    user_data as b_user_data, trades as b_trades, klines as b_klines, order_book as b_order_book,
    exchange as b_exchange,
)
from basana.external.bitstamp import (
    exchange as s_exchange, orders as s_orders, trades as s_trades, order_book as s_order_book,
)


BINANCE_PAIR = basana.Pair("BTC", "USDT")
BITSTAMP_PAIR = basana.Pair("BTC", "USD")
UTC = datetime.timezone.utc


########################################################################################################################
# Path helpers

_ATTR_TOKEN = re.compile(r"\.?([A-Za-z_][A-Za-z0-9_]*)|\[([^\]]*)\]")


def parse_attr_path(path):
    """'a.b[0].c' -> [("attr", "a"), ("attr", "b"), ("item", 0), ("attr", "c")]."""
    ret = []
    pos = 0
    while pos < len(path):
        m = _ATTR_TOKEN.match(path, pos)
        if m is None or m.end() == pos:
            raise ValueError("Invalid attribute path %r at offset %d" % (path, pos))
        if m.group(1) is not None:
            ret.append(("attr", m.group(1)))
        else:
            key = m.group(2).strip()
            if re.fullmatch(r"-?\d+", key):
                key = int(key)
            elif len(key) >= 2 and key[0] == key[-1] and key[0] in "'\"":
                key = key[1:-1]
            ret.append(("item", key))
        pos = m.end()
    return ret


def get_attr(obj, path):
    """Resolves a dotted / indexed property path. Only attribute access and subscripts, no method calls."""
    for kind, key in parse_attr_path(path):
        obj = getattr(obj, key) if kind == "attr" else obj[key]
    return obj


def set_path(payload, path, value):
    """Sets value at a JSON path (list of keys / indexes) inside nested dicts / lists. Returns payload."""
    assert len(path) > 0, "Empty path"
    node = payload
    for key in path[:-1]:
        node = node[key]
    node[path[-1]] = value
    return payload


def get_path(payload, path):
    node = payload
    for key in path:
        node = node[key]
    return node


def del_path(payload, path):
    node = payload
    for key in path[:-1]:
        node = node[key]
    del node[path[-1]]
    return payload


########################################################################################################################
# Helpers to drive the async bits synchronously.

def _run(coro):
    """Runs a coroutine that never really suspends, without creating an event loop."""
    try:
        coro.send(None)
    except StopIteration as e:
        return e.value
    coro.close()
    raise RuntimeError("coroutine suspended")


def _push_and_pop(event_source, message):
    _run(event_source.push_from_message(message))
    ret = event_source.pop()
    assert ret is not None, "No event generated"
    assert event_source.pop() is None, "More than one event generated"
    return ret


class _FakeBinanceCli:
    def __init__(self, payload):
        self._payload = payload

    async def get_order_book(self, symbol, limit=None):
        assert symbol == "BTCUSDT"
        return self._payload

    async def get_exchange_info(self, symbol=None):
        assert symbol == "BTCUSDT"
        return self._payload


class _FakeBitstampCli:
    def __init__(self, payload):
        self._payload = payload

    async def get_ticker(self, currency_pair):
        assert currency_pair == "btcusd"
        return self._payload

    async def get_trading_pairs_info(self):
        return self._payload["pairs"]


def _binance_bid_ask(j):
    fake_self = SimpleNamespace(_cli=_FakeBinanceCli(j))
    return _run(b_exchange.Exchange.get_bid_ask(fake_self, BINANCE_PAIR))


def _binance_pair_info(j):
    fake_self = SimpleNamespace(_cli=_FakeBinanceCli(j), _pair_info_cache={})
    return _run(b_exchange.Exchange.get_pair_info(fake_self, BINANCE_PAIR))


def _bitstamp_bid_ask(j):
    fake_self = SimpleNamespace(_cli=_FakeBitstampCli(j))
    return _run(s_exchange.Exchange.get_bid_ask(fake_self, BITSTAMP_PAIR))


def _bitstamp_pair_info(j):
    fake_self = SimpleNamespace(_cli=_FakeBitstampCli(j), _pair_info_cache={})
    _run(s_exchange.Exchange.fetch_pair_info(fake_self))
    return fake_self._pair_info_cache[BITSTAMP_PAIR]


def _binance_user_data_event(j):
    return _push_and_pop(
        b_user_data.WebSocketEventSource(core_event.Producer()), {"stream": "12345678", "data": j}
    )


def _binance_trade_event(j):
    return _push_and_pop(
        b_trades.WebSocketEventSource(BINANCE_PAIR, core_event.Producer()), {"stream": "btcusdt@trade", "data": j}
    )


def _binance_bar_event(j):
    return _push_and_pop(
        b_klines.WebSocketEventSource(BINANCE_PAIR, core_event.Producer()), {"stream": "btcusdt@kline_1m", "data": j}
    )


def _binance_order_book_event(j):
    return _push_and_pop(
        b_order_book.WebSocketEventSource(BINANCE_PAIR, core_event.Producer()),
        {"stream": "btcusdt@depth10", "data": j}
    )


def _bitstamp_order_event(j):
    return _push_and_pop(
        s_orders.WebSocketEventSource(BITSTAMP_PAIR, core_event.Producer()),
        {"event": "order_changed", "channel": "live_orders_btcusd", "data": j}
    )


def _bitstamp_trade_event(j):
    return _push_and_pop(
        s_trades.WebSocketEventSource(BITSTAMP_PAIR, core_event.Producer()),
        {"event": "trade", "channel": "live_trades_btcusd", "data": j}
    )


def _bitstamp_order_book_event(j):
    return _push_and_pop(
        s_order_book.WebSocketEventSource(BITSTAMP_PAIR, core_event.Producer()),
        {"event": "data", "channel": "order_book_btcusd", "data": j}
    )


def _order_info_maker(order_info_cls, trade_cls):
    # OrderInfo takes the order JSON and the list of Trade wrappers (2 REST calls). Payload: {"order":.., "trades":..}
    return lambda j: order_info_cls(j["order"], [trade_cls(t) for t in j["trades"]])


########################################################################################################################
# Status tables, written independently of the code under test (the booleans come from the exchange semantics: an order is
# open while it can still trade).
#
# MANDATORY tables: every status the exchanges document and the property quantifies over ("every documented order status").
#   Binance order status: NEW, PARTIALLY_FILLED, FILLED, CANCELED, PENDING_CANCEL, REJECTED, EXPIRED.
#   Binance order list (OCO) status, field listOrderStatus: EXECUTING, ALL_DONE, REJECT.
#   Bitstamp order status: Open, Finished, Expired, Canceled.
# IF-KNOWN tables: statuses that newer revisions of the Binance enum documentation list (PENDING_NEW: the order waits for the
#   working order of its list, it can still trade -> open; EXPIRED_IN_MATCH: expired by self-trade prevention -> closed). The
#   documentation cannot be consulted offline, so nothing is claimed about a library that REFUSES them loudly (the current
#   tree raises AssertionError "No mapping for ..."); but a library that maps them must map them to the flag given here.
# Statuses found in the library's own tables (library_status_tables()) that neither table knows are fed as well and counted
# in the evidence ("status-not-in-harness-table"), without a verdict.

BINANCE_ORDER_STATUS = {
    "NEW": True,
    "PARTIALLY_FILLED": True,
    "PENDING_CANCEL": True,
    "FILLED": False,
    "CANCELED": False,
    "REJECTED": False,
    "EXPIRED": False,
}
BINANCE_ORDER_STATUS_IF_KNOWN = {
    "PENDING_NEW": True,
    "EXPIRED_IN_MATCH": False,
}

BINANCE_OCO_STATUS = {
    "EXECUTING": True,
    "ALL_DONE": False,
    "REJECT": False,
}

BITSTAMP_STATUS_TABLE = {
    "Open": True,
    "Finished": False,
    "Expired": False,
    "Canceled": False,
}

STATUS_FAMILIES = {
    "binance.order": dict(table=BINANCE_ORDER_STATUS, if_known=BINANCE_ORDER_STATUS_IF_KNOWN),
    "binance.oco": dict(table=BINANCE_OCO_STATUS, if_known={}),
    "bitstamp.order": dict(table=BITSTAMP_STATUS_TABLE, if_known={}),
}


def library_status_tables():
    """{family: {status: flag}} read from the dict literals in the library's own status functions (by parsing their source;
    {} when a function is not written as a table). Used ONLY to extend the alphabet that is fed, never as the expectation."""
    import ast
    import inspect
    import textwrap
    from basana.external.binance import helpers as b_helpers
    found = {}
    sources = {
        "binance.order": lambda: getattr(b_helpers, "order_status_is_open", None),
        "binance.oco": lambda: getattr(b_helpers, "oco_order_status_is_open", None),
        "bitstamp.order": lambda: getattr(getattr(s_exchange.OrderInfo, "is_open", None), "fget", None),
    }
    for family, get in sources.items():
        keys = {}
        try:
            tree = ast.parse(textwrap.dedent(inspect.getsource(get())))
            for node in ast.walk(tree):
                if isinstance(node, ast.Dict):
                    for k, v in zip(node.keys, node.values):
                        if isinstance(k, ast.Constant) and isinstance(k.value, str) and isinstance(v, ast.Constant) \
                                and isinstance(v.value, bool):
                            keys[k.value] = v.value
        except Exception:  # noqa
            keys = {}
        found[family] = keys
    return found


########################################################################################################################
# Base payloads (taken from / modelled after the ones in /repo/tests).

BINANCE_SPOT_BALANCE = {"asset": "BTC", "free": "0.00000053", "locked": "1.00000000"}

BINANCE_MARGIN_BALANCE = {
    "asset": "BTC", "free": "0.01156608", "locked": "0.00100000", "borrowed": "0.00250000",
    "interest": "0.00000012", "netAsset": "0.01006596"
}

BINANCE_ISOLATED_BALANCE = {
    "baseAsset": {
        "asset": "BTC", "borrowEnabled": True, "borrowed": "0.00100000", "free": "0.00200000",
        "interest": "0.00000001", "locked": "0.00050000", "netAsset": "0.00149999", "netAssetOfBtc": "0.00149999",
        "repayEnabled": True, "totalAsset": "0.00250000"
    },
    "quoteAsset": {
        "asset": "USDT", "borrowEnabled": True, "borrowed": "10.5", "free": "100", "interest": "0.00012",
        "locked": "25.25", "netAsset": "114.74988", "netAssetOfBtc": "0.006072", "repayEnabled": True,
        "totalAsset": "125.25"
    },
    "symbol": "BTCUSDT", "isolatedCreated": True, "marginLevel": "999", "marginLevelStatus": "EXCESSIVE",
    "marginRatio": "10", "indexPrice": "16468.24655543", "liquidatePrice": "0", "liquidateRate": "0",
    "tradeEnabled": True, "enabled": True
}

BINANCE_SPOT_TRADE = {
    "symbol": "BTCUSDT", "id": 2171115716, "orderId": 15455625561, "orderListId": -1,
    "price": "16877.05000000", "qty": "0.00177000", "quoteQty": "29.87237850",
    "commission": "0.01000000", "commissionAsset": "BNB", "time": 1668306875519,
    "isBuyer": True, "isMaker": False, "isBestMatch": True
}

BINANCE_MARGIN_TRADE = {
    "symbol": "BTCUSDT", "id": 2327639624, "orderId": 16422505508,
    "price": "17775.62", "qty": "0.00417", "quoteQty": "74.1243354",
    "commission": "0.00000417", "commissionAsset": "BTC", "time": 1670986059521,
    "isBuyer": True, "isMaker": False, "isBestMatch": True, "isIsolated": False
}

# GET /api/v3/order (stop limit order, partially filled, so that every optional price is non zero).
BINANCE_SPOT_ORDER = {
    "symbol": "BTCUSDT", "orderId": 15455625561, "orderListId": -1, "clientOrderId": "kTjLDEuQdFO5VZmWTbAT7b",
    "price": "16900.00000000", "origQty": "0.00354000", "executedQty": "0.00177000",
    "cummulativeQuoteQty": "29.87237850", "status": "PARTIALLY_FILLED", "timeInForce": "GTC",
    "type": "STOP_LOSS_LIMIT", "side": "BUY", "stopPrice": "16850.00000000", "icebergQty": "0.00000000",
    "time": 1668306875519, "updateTime": 1668306875519, "isWorking": True, "origQuoteOrderQty": "30.00000000"
}

BINANCE_MARGIN_ORDER = {
    "symbol": "BTCUSDT", "orderId": 16422505508, "clientOrderId": "B28B24EE482A425EA1A07F343FB2F3EE",
    "price": "17841.08", "origQty": "0.01682", "executedQty": "0.00417", "cummulativeQuoteQty": "74.1243354",
    "status": "PARTIALLY_FILLED", "timeInForce": "GTC", "type": "STOP_LOSS_LIMIT", "side": "BUY",
    "stopPrice": "17800.5", "icebergQty": "0", "time": 1670986059521, "updateTime": 1670986059521,
    "isWorking": True, "accountId": 207887936, "isIsolated": False
}

BINANCE_SPOT_OPEN_ORDER = {
    "clientOrderId": "web_6bda0ea9d8f34d1dbc2956e1f4d33cd2", "cummulativeQuoteQty": "12.50000000",
    "executedQty": "0.00050000", "icebergQty": "0.00000000", "isWorking": True, "orderId": 18687117506,
    "orderListId": -1, "origQty": "0.01023000", "origQuoteOrderQty": "255.75000000", "price": "25000.00000000",
    "selfTradePreventionMode": "NONE", "side": "SELL", "status": "PARTIALLY_FILLED",
    "stopPrice": "24900.00000000", "symbol": "BTCUSDT", "time": 1676482455273, "timeInForce": "GTC",
    "type": "STOP_LOSS_LIMIT", "updateTime": 1676482455273, "workingTime": 1676482455273
}

BINANCE_MARGIN_OPEN_ORDER = {
    "symbol": "BTCUSDT", "orderId": 16582318135, "clientOrderId": "FCE43038586A45EBB0DBF8AD0F360E5A",
    "price": "15000", "origQty": "0.001", "executedQty": "0.0004", "cummulativeQuoteQty": "6", "status": "NEW",
    "timeInForce": "GTC", "type": "STOP_LOSS_LIMIT", "side": "BUY", "stopPrice": "14900", "icebergQty": "0",
    "time": 1671463475963, "updateTime": 1671463475963, "isWorking": True, "accountId": 207887936,
    "isIsolated": False
}

BINANCE_SPOT_CANCELED_ORDER = {
    "symbol": "BTCUSDT", "origClientOrderId": "ZDlLvguLRpgGRfcwLLeATp", "orderId": 15558250268,
    "orderListId": -1, "clientOrderId": "GDrsTf3T6HptxXNQSswwIE", "price": "10000.00000000",
    "origQty": "0.00100000", "executedQty": "0.00040000", "cummulativeQuoteQty": "4.00000000",
    "status": "CANCELED", "timeInForce": "GTC", "type": "STOP_LOSS_LIMIT", "side": "SELL",
    "stopPrice": "10100.00000000"
}

BINANCE_MARGIN_CANCELED_ORDER = {
    "orderId": "16582318135", "symbol": "BTCUSDT", "origClientOrderId": "FCE43038586A45EBB0DBF8AD0F360E5A",
    "clientOrderId": "4doKFpBuPJ1CEX8OSRa9qv", "price": "15000", "origQty": "0.001", "executedQty": "0.0004",
    "cummulativeQuoteQty": "6", "status": "CANCELED", "timeInForce": "GTC", "type": "STOP_LOSS_LIMIT",
    "side": "BUY", "stopPrice": "14900", "isIsolated": False
}

# POST /api/v3/order, newOrderRespType=FULL.
BINANCE_SPOT_CREATED_ORDER = {
    "symbol": "BTCUSDT", "orderId": 15374780716, "orderListId": -1, "clientOrderId": "w4PHTG4wsaN6bEKoBMNK7O",
    "transactTime": 1668129070269, "price": "17650.00000000", "origQty": "0.00200000",
    "executedQty": "0.00100000", "cummulativeQuoteQty": "17.62721000", "status": "PARTIALLY_FILLED",
    "timeInForce": "GTC", "type": "LIMIT", "side": "BUY",
    "fills": [
        {
            "price": "17627.21000000", "qty": "0.00100000", "commission": "0.00000100", "commissionAsset": "BTC",
            "tradeId": 2156194389
        }
    ]
}

BINANCE_MARGIN_CREATED_ORDER = {
    "symbol": "BTCUSDT", "orderId": 16422505508, "clientOrderId": "B28B24EE482A425EA1A07F343FB2F3EE",
    "transactTime": 1670986059521, "price": "17841.08", "origQty": "0.01682", "executedQty": "0.00417",
    "cummulativeQuoteQty": "74.1243354", "status": "PARTIALLY_FILLED", "timeInForce": "GTC", "type": "LIMIT",
    "side": "BUY",
    "fills": [
        {"commission": "0.00000417", "commissionAsset": "BTC", "price": "17775.62", "qty": "0.00417"},
    ],
    "marginBuyBorrowAsset": "USDT", "marginBuyBorrowAmount": "100.0869656", "isIsolated": False
}

BINANCE_FILL = {"price": "1198.41", "qty": "0.2503", "commission": "0.0002503", "commissionAsset": "ETH"}

BINANCE_SPOT_FILL = {
    "price": "17627.21000000", "qty": "0.00100000", "commission": "0.00000100", "commissionAsset": "BTC",
    "tradeId": 2156194389
}

BINANCE_SPOT_OCO = {
    "orderListId": 77862615, "contingencyType": "OCO", "listStatusType": "ALL_DONE",
    "listOrderStatus": "ALL_DONE", "listClientOrderId": "0A8oF9T3k96l6lqzqGOIfB",
    "transactionTime": 1668527583935, "symbol": "BTCUSDT",
    "orders": [
        {"symbol": "BTCUSDT", "orderId": 15558250268, "clientOrderId": "ZDlLvguLRpgGRfcwLLeATp"},
        {"symbol": "BTCUSDT", "orderId": 15558250269, "clientOrderId": "AdLeXmt1ChmIloCJJKC0xu"}
    ],
    "orderReports": [
        {
            "symbol": "BTCUSDT", "origClientOrderId": "ZDlLvguLRpgGRfcwLLeATp", "orderId": 15558250268,
            "orderListId": 77862615, "clientOrderId": "GDrsTf3T6HptxXNQSswwIE", "price": "10000.00000000",
            "origQty": "0.00100000", "executedQty": "0.00000000", "cummulativeQuoteQty": "0.00000000",
            "status": "CANCELED", "timeInForce": "GTC", "type": "STOP_LOSS_LIMIT", "side": "SELL",
            "stopPrice": "10000.00000000"
        },
        {
            "symbol": "BTCUSDT", "origClientOrderId": "AdLeXmt1ChmIloCJJKC0xu", "orderId": 15558250269,
            "orderListId": 77862615, "clientOrderId": "GDrsTf3T6HptxXNQSswwIE", "price": "23000.00000000",
            "origQty": "0.00100000", "executedQty": "0.00000000", "cummulativeQuoteQty": "0.00000000",
            "status": "CANCELED", "timeInForce": "GTC", "type": "LIMIT_MAKER", "side": "SELL"
        }
    ]
}

BINANCE_MARGIN_OCO = {
    "orderListId": 79680111, "contingencyType": "OCO", "listStatusType": "ALL_DONE",
    "listOrderStatus": "ALL_DONE", "listClientOrderId": "B3331893C53A4F1487EB78F2E16D4FDD",
    "transactionTime": 1671463475963, "symbol": "BTCUSDT", "isIsolated": False,
    "orders": [
        {"symbol": "BTCUSDT", "orderId": 16583687189, "clientOrderId": "dyLZCprGrE0we3SAdg1tqP"},
        {"symbol": "BTCUSDT", "orderId": 16583687190, "clientOrderId": "LhuSdrzXqqtsZsGNFrCRhw"}
    ],
    "orderReports": [
        {
            "symbol": "BTCUSDT", "origClientOrderId": "dyLZCprGrE0we3SAdg1tqP", "orderId": 16583687189,
            "clientOrderId": "JKrKa1n87ZxYISKH4ujAyR", "price": "19000.00000000", "origQty": "0.00100000",
            "executedQty": "0", "cummulativeQuoteQty": "0", "status": "CANCELED", "timeInForce": "GTC",
            "type": "STOP_LOSS_LIMIT", "side": "BUY", "stopPrice": "19000.00000000"
        },
        {
            "symbol": "BTCUSDT", "origClientOrderId": "LhuSdrzXqqtsZsGNFrCRhw", "orderId": 16583687190,
            "clientOrderId": "JKrKa1n87ZxYISKH4ujAyR", "price": "14000.00000000", "origQty": "0.00100000",
            "executedQty": "0", "cummulativeQuoteQty": "0", "status": "CANCELED", "timeInForce": "GTC",
            "type": "LIMIT_MAKER", "side": "BUY"
        }
    ]
}

# User data stream: executionReport.
BINANCE_EXECUTION_REPORT = {
    "C": "", "E": 1735256226355, "F": "0.00000000", "I": 73412626486, "L": "95752.01000000", "M": True,
    "N": "BTC", "O": 1735256217797, "P": "95000.00000000", "Q": "19.15040200", "S": "BUY", "T": 1735256226354,
    "V": "EXPIRE_MAKER", "W": 1735256217797, "X": "PARTIALLY_FILLED", "Y": "9.57520100", "Z": "9.57520100",
    "c": "web_5f41f24b392d4734b56cf0e32f974375", "e": "executionReport", "f": "GTC", "g": -1, "i": 34351225373,
    "l": "0.00010000", "m": True, "n": "0.00000010", "o": "STOP_LOSS_LIMIT", "p": "95752.01000000",
    "q": "0.00020000", "r": "NONE", "s": "BTCUSDT", "t": 4339673735, "w": False, "x": "TRADE",
    "z": "0.00010000",
}

BINANCE_ACCOUNT_POSITION = {
    "B": [
        {"a": "BTC", "f": "0.00020639", "l": "0.00000000"},
        {"a": "BNB", "f": "0.00000324", "l": "0.00000000"},
        {"a": "USDT", "f": "2495.07648830", "l": "0.00000000"}
    ],
    "E": 1735070948134, "e": "outboundAccountPosition", "u": 1735070948133
}

BINANCE_WS_TRADE = {
    "e": "trade", "E": 1669932275175, "s": "BTCUSDT", "t": 2275696344, "p": "16930.90000000",
    "q": "0.05097000", "b": 16081955917, "a": 16081955890, "T": 1669932275174, "m": False, "M": True
}

BINANCE_KLINE = {
    "t": 1669932240000, "T": 1669932299999, "s": "BTCUSDT", "i": "1m", "f": 2275696000, "L": 2275696344,
    "o": "16930.90000000", "c": "16931.50000000", "h": "16935.00000000", "l": "16928.10000000",
    "v": "12.34567000", "n": 345, "x": True, "q": "209023.45678900", "V": "6.00000000",
    "Q": "101585.40000000", "B": "0"
}

BINANCE_KLINE_EVENT = {"e": "kline", "E": 1669932300004, "s": "BTCUSDT", "k": BINANCE_KLINE}

BINANCE_ORDER_BOOK = {
    "lastUpdateId": 27229732069,
    "bids": [["16757.47000000", "0.04893000"], ["16757.41000000", "0.00073000"], ["16756.52000000", "0.00690000"]],
    "asks": [["16758.13000000", "0.00682000"], ["16758.55000000", "0.04963000"], ["16759.25000000", "0.00685000"]]
}

BINANCE_EXCHANGE_INFO = {
    "timezone": "UTC", "serverTime": 1671217574815, "rateLimits": [], "exchangeFilters": [],
    "symbols": [
        {
            "symbol": "BTCUSDT", "status": "TRADING", "baseAsset": "BTC", "baseAssetPrecision": 8,
            "quoteAsset": "USDT", "quotePrecision": 8, "quoteAssetPrecision": 8,
            "orderTypes": ["LIMIT", "LIMIT_MAKER", "MARKET", "STOP_LOSS_LIMIT", "TAKE_PROFIT_LIMIT"],
            "isSpotTradingAllowed": True, "isMarginTradingAllowed": True,
            "filters": [
                {
                    "filterType": "PRICE_FILTER", "minPrice": "0.01000000", "maxPrice": "1000000.00000000",
                    "tickSize": "0.01000000"
                },
                {
                    "filterType": "LOT_SIZE", "minQty": "0.00001000", "maxQty": "9000.00000000",
                    "stepSize": "0.00001000"
                },
                {"filterType": "MIN_NOTIONAL", "minNotional": "10.00000000", "applyToMarket": True, "avgPriceMins": 5},
            ],
            "permissions": ["SPOT", "MARGIN"]
        }
    ]
}

BITSTAMP_OPEN_ORDER = {
    "price": "19000.0", "currency_pair": "BTC/USD", "datetime": "2022-09-20 16:11:06",
    "amount": "0.01204166", "amount_at_create": "0.02000000", "type": "0", "id": "1535407273615360",
    "client_order_id": "51557545381C4997BC452AE1E48E0D88"
}

BITSTAMP_TRANSACTION = {
    "usd": "193.81000", "price": "19381.00", "datetime": "2022-09-22 17:44:11.689000", "btc": "0.01000000",
    "fee": "0.12000", "tid": 248447671, "type": 2
}

BITSTAMP_ORDER_STATUS = {
    "status": "Open", "id": 1536137941123072, "amount_remaining": "0.01000000",
    "client_order_id": "51557545381C4997BC452AE1E48E0D88",
    "transactions": [
        BITSTAMP_TRANSACTION,
        {
            "usd": "96.91000", "price": "19382.00", "datetime": "2022-09-22 17:44:12.001000", "btc": "0.00500000",
            "fee": "0.06000", "tid": 248447672, "type": 2
        }
    ]
}

BITSTAMP_BALANCE = {"available": "28.92", "currency": "usd", "total": "30.42", "reserved": "1.50"}

# Bitstamp's cancel_order response really carries JSON numbers for amount / price.
BITSTAMP_CANCELED_ORDER = {"id": 1538604691881987, "amount": 0.00319028, "price": 17500, "type": 0}

BITSTAMP_CREATED_ORDER = {
    "id": "1539419698798592", "datetime": "2022-09-30 16:47:12.583000", "type": "0", "amount": "0.00100000",
    "price": "19381", "client_order_id": "51557545381C4997BC452AE1E48E0D88"
}

BITSTAMP_TICKER = {
    "timestamp": "1662146819", "open": "19800.00", "high": "20010.00", "low": "19520.00", "last": "19825",
    "volume": "1234.56789012", "vwap": "19755.12", "bid": "19822", "ask": "19834", "side": "0",
    "open_24": "19700.00", "percent_change_24": "0.63"
}

BITSTAMP_TRADING_PAIRS = {
    "pairs": [
        {
            "name": "BTC/USD", "url_symbol": "btcusd", "base_decimals": 8, "counter_decimals": 0,
            "instant_order_counter_decimals": 2, "minimum_order": "10 USD", "trading": "Enabled",
            "instant_and_market_orders": "Enabled", "description": "Bitcoin / U.S. dollar"
        },
        {
            "name": "ETH/USD", "url_symbol": "ethusd", "base_decimals": 8, "counter_decimals": 1,
            "instant_order_counter_decimals": 2, "minimum_order": "10 USD", "trading": "Enabled",
            "instant_and_market_orders": "Enabled", "description": "Ether / U.S. dollar"
        },
    ]
}

BITSTAMP_WS_ORDER = {
    "id": 1531241723363332, "id_str": "1531241723363332", "order_type": 1, "datetime": "1662673286",
    "microtimestamp": "1662673286025000", "amount": 0.28435528, "amount_str": "0.28435528",
    "amount_at_create": "1.28435528", "price": 19342, "price_str": "19342"
}

BITSTAMP_WS_TRADE = {
    "id": 246612672, "timestamp": "1662573810", "amount": 0.374, "amount_str": "0.37400000", "price": 19034,
    "price_str": "19034", "type": 0, "microtimestamp": "1662573810482000", "buy_order_id": 1530834271539201,
    "sell_order_id": 1530834150440960
}

BITSTAMP_ORDER_BOOK = {
    "timestamp": "1662146819", "microtimestamp": "1662146819514365",
    "bids": [["19822", "0.15000000"], ["19820", "0.88755147"]],
    "asks": [["19834", "0.81049238"], ["19835", "0.15000000"]]
}


########################################################################################################################
# Reusable property groups.

def _prefixed(mapping, attr_prefix="", path_prefix=()):
    return {attr_prefix + prop: list(path_prefix) + list(path) for prop, path in mapping.items()}


def _merge(*mappings):
    ret = {}
    for mapping in mappings:
        for key, value in mapping.items():
            assert key not in ret, key
            ret[key] = value
    return ret


_B_BALANCE_DEC = {"available": ["free"], "locked": ["locked"]}
_B_MARGIN_BALANCE_DEC = {"available": ["free"], "locked": ["locked"], "borrowed": ["borrowed"]}
_B_TRADE_DEC = {
    "price": ["price"], "amount": ["qty"], "quote_amount": ["quoteQty"], "commission": ["commission"],
}
_B_TRADE_MS = {"datetime": ["time"]}
_B_ORDER_DEC = {
    "amount": ["origQty"], "amount_filled": ["executedQty"], "quote_amount_filled": ["cummulativeQuoteQty"],
    "limit_price": ["price"], "stop_price": ["stopPrice"],
}
_B_ORDER_SKIP_ZERO = ["limit_price", "stop_price"]
_B_ORDER_OPTIONAL = ["limit_price", "stop_price"]
_B_FILL_DEC = {"price": ["price"], "amount": ["qty"], "commission": ["commission"]}
_B_CREATED_DEC = {
    "limit_price": ["price"], "amount": ["origQty"], "amount_filled": ["executedQty"],
    "quote_amount_filled": ["cummulativeQuoteQty"],
}
_B_CREATED_OPTIONAL = ["limit_price", "amount", "amount_filled", "quote_amount_filled"]
_B_ORDER_UPDATE_DEC = {
    "amount": ["q"], "quote_amount": ["Q"], "limit_price": ["p"], "stop_price": ["P"], "amount_filled": ["z"],
    "quote_amount_filled": ["Z"], "fees[BTC]": ["n"],
}
_B_ORDER_UPDATE_SKIP_ZERO = ["quote_amount", "limit_price", "stop_price"]
_B_WS_TRADE_DEC = {"price": ["p"], "amount": ["q"]}
_B_BAR_DEC = {"open": ["o"], "high": ["h"], "low": ["l"], "close": ["c"], "volume": ["v"]}
_BOOK_DEC = {
    "bids[0].price": ["bids", 0, 0], "bids[0].volume": ["bids", 0, 1],
    "asks[0].price": ["asks", 0, 0], "asks[0].volume": ["asks", 0, 1],
    # Last level too, to catch decoders that only get the top of the book right.
    "bids[-1].price": ["bids", -1, 0], "bids[-1].volume": ["bids", -1, 1],
    "asks[-1].price": ["asks", -1, 0], "asks[-1].volume": ["asks", -1, 1],
}
_S_TX_DEC = {"price": ["price"], "fee": ["fee"], "btc": ["btc"], "usd": ["usd"]}


def _bar_co_set(attr_prefix="", path_prefix=()):
    ohlc = {"open": "o", "high": "h", "low": "l", "close": "c"}
    return {
        attr_prefix + prop: [list(path_prefix) + [other] for other in ohlc.values() if other != key]
        for prop, key in ohlc.items()
    }


def _status(path, table):
    family = next(name for name, fam in STATUS_FAMILIES.items() if fam["table"] is table)
    return {"path": list(path), "table": dict(table), "if_known": dict(STATUS_FAMILIES[family]["if_known"]), "family": family}


def _order_info_entry(name, order_info_cls, trade_cls, order_payload, trade_payload):
    return dict(
        name=name,
        make=_order_info_maker(order_info_cls, trade_cls),
        payload={"order": order_payload, "trades": [trade_payload]},
        decimals=_merge(
            _prefixed(_B_ORDER_DEC, path_prefix=["order"]),
            _prefixed(_B_TRADE_DEC, "trades[0].", ["trades", 0]),
        ),
        computed=["amount_remaining", "fill_price", "fees"],
        ms_timestamps=_prefixed(_B_TRADE_MS, "trades[0].", ["trades", 0]),
        statuses={"is_open": _status(["order", "status"], BINANCE_ORDER_STATUS)},
        skip_zero=_B_ORDER_SKIP_ZERO,
        optional=_B_ORDER_OPTIONAL,
        # fees are accumulated in the constructor, everything else is lazy.
        eager=False,
    )


def _order_wrapper_entry(name, cls, payload, ms_timestamps=None, extra_decimals=None, extra_skip_zero=()):
    return dict(
        name=name,
        make=lambda j: cls(j),
        payload=payload,
        decimals=_merge(_B_ORDER_DEC, extra_decimals or {}),
        ms_timestamps=ms_timestamps or {},
        statuses={"is_open": _status(["status"], BINANCE_ORDER_STATUS)},
        skip_zero=_B_ORDER_SKIP_ZERO + list(extra_skip_zero),
        optional=_B_ORDER_OPTIONAL + list(extra_skip_zero),
    )


def _oco_entry(name, cls, payload):
    return dict(
        name=name,
        make=lambda j: cls(j),
        payload=payload,
        ms_timestamps={"datetime": ["transactionTime"]},
        statuses={"is_open": _status(["listOrderStatus"], BINANCE_OCO_STATUS)},
    )


def _created_order_entry(name, cls, payload, with_fills):
    decimals = dict(_B_CREATED_DEC)
    if with_fills:
        decimals = _merge(decimals, _prefixed(_B_FILL_DEC, "fills[0].", ["fills", 0]))
    return dict(
        name=name,
        make=lambda j: cls(j),
        payload=payload,
        decimals=decimals,
        ms_timestamps={"datetime": ["transactTime"]},
        statuses={"is_open": _status(["status"], BINANCE_ORDER_STATUS)},
        skip_zero=["limit_price"],
        optional=_B_CREATED_OPTIONAL,
    )


########################################################################################################################
# The table.

_RAW_WRAPPERS = [
    # ---------------------------------------------------------------------------------------------------------------
    # binance/common.py
    dict(
        name="binance.common.Balance",
        make=lambda j: b_common.Balance(j),
        payload=BINANCE_SPOT_BALANCE,
        decimals=_B_BALANCE_DEC,
        computed=["total"],
    ),
    dict(
        name="binance.common.Trade",
        make=lambda j: b_common.Trade(j),
        payload=BINANCE_SPOT_TRADE,
        decimals=_B_TRADE_DEC,
        ms_timestamps=_B_TRADE_MS,
    ),
    _order_wrapper_entry("binance.common.OrderWrapper", b_common.OrderWrapper, BINANCE_SPOT_ORDER),
    _order_info_entry(
        "binance.common.OrderInfo", b_common.OrderInfo, b_common.Trade, BINANCE_SPOT_ORDER, BINANCE_SPOT_TRADE
    ),
    dict(
        name="binance.common.Fill",
        make=lambda j: b_common.Fill(j),
        payload=BINANCE_FILL,
        decimals=_B_FILL_DEC,
    ),
    _created_order_entry(
        "binance.common.CreatedOrder", b_common.CreatedOrder, BINANCE_SPOT_CREATED_ORDER, with_fills=False
    ),
    _order_wrapper_entry("binance.common.CanceledOrder", b_common.CanceledOrder, BINANCE_SPOT_CANCELED_ORDER),
    _order_wrapper_entry(
        "binance.common.OpenOrder", b_common.OpenOrder, BINANCE_SPOT_OPEN_ORDER, ms_timestamps={"datetime": ["time"]}
    ),
    _oco_entry("binance.common.OCOOrderWrapper", b_common.OCOOrderWrapper, BINANCE_SPOT_OCO),
    _oco_entry("binance.common.CreatedOCOOrder", b_common.CreatedOCOOrder, BINANCE_SPOT_OCO),
    _oco_entry("binance.common.OCOOrderInfo", b_common.OCOOrderInfo, BINANCE_SPOT_OCO),
    _oco_entry("binance.common.CanceledOCOOrder", b_common.CanceledOCOOrder, BINANCE_SPOT_OCO),

    # ---------------------------------------------------------------------------------------------------------------
    # binance/spot.py (Balance, OrderInfo, CanceledOrder, *OCO* are aliases of the common classes).
    dict(
        name="binance.spot.Trade",
        make=lambda j: b_spot.Trade(j),
        payload=BINANCE_SPOT_TRADE,
        decimals=_B_TRADE_DEC,
        ms_timestamps=_B_TRADE_MS,
    ),
    dict(
        name="binance.spot.Fill",
        make=lambda j: b_spot.Fill(j),
        payload=BINANCE_SPOT_FILL,
        decimals=_B_FILL_DEC,
    ),
    _created_order_entry("binance.spot.CreatedOrder", b_spot.CreatedOrder, BINANCE_SPOT_CREATED_ORDER, with_fills=True),
    _order_wrapper_entry(
        "binance.spot.OpenOrder", b_spot.OpenOrder, BINANCE_SPOT_OPEN_ORDER, ms_timestamps={"datetime": ["time"]},
        extra_decimals={"quote_amount": ["origQuoteOrderQty"]}, extra_skip_zero=["quote_amount"]
    ),
    _order_info_entry(
        "binance.spot.OrderInfo", b_spot.OrderInfo, b_spot.Trade, BINANCE_SPOT_ORDER, BINANCE_SPOT_TRADE
    ),

    # ---------------------------------------------------------------------------------------------------------------
    # binance/margin.py (cross_margin.py defines no wrappers, it uses margin.Balance for userAssets).
    dict(
        name="binance.margin.Balance",
        make=lambda j: b_margin.Balance(j),
        payload=BINANCE_MARGIN_BALANCE,
        decimals=_B_MARGIN_BALANCE_DEC,
        computed=["total"],
    ),
    dict(
        name="binance.margin.Trade",
        make=lambda j: b_margin.Trade(j),
        payload=BINANCE_MARGIN_TRADE,
        decimals=_B_TRADE_DEC,
        ms_timestamps=_B_TRADE_MS,
    ),
    dict(
        name="binance.margin.Fill",
        make=lambda j: b_margin.Fill(j),
        payload=BINANCE_FILL,
        decimals=_B_FILL_DEC,
    ),
    _created_order_entry(
        "binance.margin.CreatedOrder", b_margin.CreatedOrder, BINANCE_MARGIN_CREATED_ORDER, with_fills=True
    ),
    _order_wrapper_entry("binance.margin.CanceledOrder", b_margin.CanceledOrder, BINANCE_MARGIN_CANCELED_ORDER),
    _order_wrapper_entry(
        "binance.margin.OpenOrder", b_margin.OpenOrder, BINANCE_MARGIN_OPEN_ORDER,
        ms_timestamps={"datetime": ["time"]}
    ),
    _order_info_entry(
        "binance.margin.OrderInfo", b_margin.OrderInfo, b_margin.Trade, BINANCE_MARGIN_ORDER, BINANCE_MARGIN_TRADE
    ),
    _oco_entry("binance.margin.CreatedOCOOrder", b_margin.CreatedOCOOrder, BINANCE_MARGIN_OCO),
    _oco_entry("binance.margin.OCOOrderInfo", b_margin.OCOOrderInfo, BINANCE_MARGIN_OCO),
    _oco_entry("binance.margin.CanceledOCOOrder", b_margin.CanceledOCOOrder, BINANCE_MARGIN_OCO),

    # ---------------------------------------------------------------------------------------------------------------
    # binance/isolated_margin.py
    dict(
        name="binance.isolated_margin.IsolatedBalance",
        make=lambda j: b_isolated.IsolatedBalance(j),
        payload=BINANCE_ISOLATED_BALANCE,
        decimals=_merge(
            _prefixed(_B_MARGIN_BALANCE_DEC, "base_asset_balance.", ["baseAsset"]),
            _prefixed(_B_MARGIN_BALANCE_DEC, "quote_asset_balance.", ["quoteAsset"]),
        ),
        computed=["base_asset_balance.total", "quote_asset_balance.total"],
    ),

    # ---------------------------------------------------------------------------------------------------------------
    # binance/user_data.py
    dict(
        name="binance.user_data.OrderUpdate",
        make=lambda j: b_user_data.OrderUpdate(j),
        payload=BINANCE_EXECUTION_REPORT,
        decimals=_B_ORDER_UPDATE_DEC,
        statuses={"is_open": _status(["X"], BINANCE_ORDER_STATUS)},
        skip_zero=_B_ORDER_UPDATE_SKIP_ZERO,
        optional=_B_ORDER_UPDATE_SKIP_ZERO,
    ),
    dict(
        # OrderEvent as built by user_data.WebSocketEventSource.push_from_message from {"stream":.., "data": payload}.
        name="binance.user_data.OrderEvent",
        make=_binance_user_data_event,
        payload=BINANCE_EXECUTION_REPORT,
        decimals=_prefixed(_B_ORDER_UPDATE_DEC, "order_update."),
        ms_timestamps={"when": ["E"]},
        statuses={"order_update.is_open": _status(["X"], BINANCE_ORDER_STATUS)},
        skip_zero=["order_update." + prop for prop in _B_ORDER_UPDATE_SKIP_ZERO],
        optional=["order_update." + prop for prop in _B_ORDER_UPDATE_SKIP_ZERO],
    ),
    dict(
        # Generic user data event (anything that is not an executionReport).
        name="binance.user_data.Event",
        make=_binance_user_data_event,
        payload=BINANCE_ACCOUNT_POSITION,
        ms_timestamps={"when": ["E"]},
    ),

    # ---------------------------------------------------------------------------------------------------------------
    # binance/trades.py
    dict(
        name="binance.trades.Trade",
        make=lambda j: b_trades.Trade(BINANCE_PAIR, j),
        payload=BINANCE_WS_TRADE,
        decimals=_B_WS_TRADE_DEC,
        ms_timestamps={"datetime": ["T"]},
    ),
    dict(
        name="binance.trades.TradeEvent",
        make=_binance_trade_event,
        payload=BINANCE_WS_TRADE,
        decimals=_prefixed(_B_WS_TRADE_DEC, "trade."),
        ms_timestamps={"when": ["E"], "trade.datetime": ["T"]},
    ),

    # ---------------------------------------------------------------------------------------------------------------
    # binance/klines.py
    dict(
        name="binance.klines.Bar",
        make=lambda j: b_klines.Bar(BINANCE_PAIR, j),
        payload=BINANCE_KLINE,
        decimals=_B_BAR_DEC,
        ms_timestamps={"datetime": ["t"]},
        co_set=_bar_co_set(),
        eager=True,
    ),
    dict(
        name="binance.klines.BarEvent",
        make=_binance_bar_event,
        payload=BINANCE_KLINE_EVENT,
        decimals=_prefixed(_B_BAR_DEC, "bar.", ["k"]),
        ms_timestamps={"when": ["E"], "bar.datetime": ["k", "t"]},
        co_set=_bar_co_set("bar.", ["k"]),
        eager=True,
    ),

    # ---------------------------------------------------------------------------------------------------------------
    # binance/order_book.py
    dict(
        name="binance.order_book.OrderBook",
        make=lambda j: b_order_book.OrderBook(BINANCE_PAIR, j),
        payload=BINANCE_ORDER_BOOK,
        decimals=_BOOK_DEC,
    ),
    dict(
        # when is dt.utc_now(), the partial book depth stream has no timestamp.
        name="binance.order_book.OrderBookEvent",
        make=_binance_order_book_event,
        payload=BINANCE_ORDER_BOOK,
        decimals=_prefixed(_BOOK_DEC, "order_book."),
    ),

    # ---------------------------------------------------------------------------------------------------------------
    # binance/exchange.py
    dict(
        # Exchange.get_bid_ask -> (bid, ask) tuple, from GET /api/v3/depth?limit=1.
        name="binance.exchange.Exchange.get_bid_ask",
        make=_binance_bid_ask,
        payload=BINANCE_ORDER_BOOK,
        decimals={"[0]": ["bids", 0, 0], "[1]": ["asks", 0, 0]},
        eager=True,
    ),
    dict(
        # Exchange.get_pair_info -> PairInfoEx. Precisions are derived (log10) from stepSize / tickSize.
        name="binance.exchange.Exchange.get_pair_info",
        make=_binance_pair_info,
        payload=BINANCE_EXCHANGE_INFO,
        computed=["base_precision", "quote_precision"],
        eager=True,
    ),

    # ---------------------------------------------------------------------------------------------------------------
    # bitstamp/exchange.py
    dict(
        # NOTE: amount_filled returns the "amount" field as is.
        name="bitstamp.exchange.OpenOrder",
        make=lambda j: s_exchange.OpenOrder(j),
        payload=BITSTAMP_OPEN_ORDER,
        decimals={"limit_price": ["price"], "amount": ["amount_at_create"], "amount_filled": ["amount"]},
        iso_timestamps={"datetime": ["datetime"]},
    ),
    dict(
        # btc / usd are dynamic attributes (__getattr__).
        name="bitstamp.exchange.OrderStatusTransaction",
        make=lambda j: s_exchange.OrderStatusTransaction(j),
        payload=BITSTAMP_TRANSACTION,
        decimals=_S_TX_DEC,
    ),
    dict(
        name="bitstamp.exchange.OrderStatus",
        make=lambda j: s_exchange.OrderStatus(j),
        payload=BITSTAMP_ORDER_STATUS,
        decimals=_merge(
            {"amount_remaining": ["amount_remaining"]},
            _prefixed(_S_TX_DEC, "transactions[0].", ["transactions", 0]),
            _prefixed(_S_TX_DEC, "transactions[-1].", ["transactions", -1]),
        ),
    ),
    dict(
        # Sums over the transactions are accumulated in the constructor.
        name="bitstamp.exchange.OrderInfo",
        make=lambda j: s_exchange.OrderInfo(BITSTAMP_PAIR, s_exchange.OrderStatus(j)),
        payload=BITSTAMP_ORDER_STATUS,
        decimals={"amount_remaining": ["amount_remaining"]},
        computed=["amount_filled", "quote_amount_filled", "fill_price", "fees"],
        statuses={"is_open": _status(["status"], BITSTAMP_STATUS_TABLE)},
        eager=False,
    ),
    dict(
        name="bitstamp.exchange.Balance",
        make=lambda j: s_exchange.Balance(j),
        payload=BITSTAMP_BALANCE,
        decimals={"available": ["available"], "total": ["total"], "reserved": ["reserved"]},
    ),
    dict(
        name="bitstamp.exchange.CanceledOrder",
        make=lambda j: s_exchange.CanceledOrder(j),
        payload=BITSTAMP_CANCELED_ORDER,
        decimals={"amount": ["amount"], "limit_price": ["price"]},
        float_fields=[["amount"], ["price"]],
    ),
    dict(
        name="bitstamp.exchange.CreatedOrder",
        make=lambda j: s_exchange.CreatedOrder(j),
        payload=BITSTAMP_CREATED_ORDER,
        decimals={"price": ["price"], "amount": ["amount"]},
        iso_timestamps={"datetime": ["datetime"]},
    ),
    dict(
        # Exchange.get_bid_ask -> (bid, ask) tuple, from the ticker.
        name="bitstamp.exchange.Exchange.get_bid_ask",
        make=_bitstamp_bid_ask,
        payload=BITSTAMP_TICKER,
        decimals={"[0]": ["bid"], "[1]": ["ask"]},
        eager=True,
    ),
    dict(
        # Exchange.fetch_pair_info -> PairInfo(int(base_decimals), int(counter_decimals)). Payload: {"pairs": [...]}.
        name="bitstamp.exchange.Exchange.get_pair_info",
        make=_bitstamp_pair_info,
        payload=BITSTAMP_TRADING_PAIRS,
        computed=["base_precision", "quote_precision"],
        eager=True,
    ),

    # ---------------------------------------------------------------------------------------------------------------
    # bitstamp/orders.py
    dict(
        name="bitstamp.orders.Order",
        make=lambda j: s_orders.Order(BITSTAMP_PAIR, j),
        payload=BITSTAMP_WS_ORDER,
        decimals={"amount": ["amount_at_create"], "price": ["price_str"]},
        computed=["amount_filled"],
        us_timestamps={"datetime": ["microtimestamp"]},
    ),
    dict(
        # when is dt.utc_now().
        name="bitstamp.orders.OrderEvent",
        make=_bitstamp_order_event,
        payload=BITSTAMP_WS_ORDER,
        decimals={"order.amount": ["amount_at_create"], "order.price": ["price_str"]},
        computed=["order.amount_filled"],
        us_timestamps={"order.datetime": ["microtimestamp"]},
    ),

    # ---------------------------------------------------------------------------------------------------------------
    # bitstamp/trades.py
    dict(
        name="bitstamp.trades.Trade",
        make=lambda j: s_trades.Trade(BITSTAMP_PAIR, j),
        payload=BITSTAMP_WS_TRADE,
        decimals={"amount": ["amount_str"], "price": ["price_str"]},
        us_timestamps={"datetime": ["microtimestamp"]},
    ),
    dict(
        # when is dt.utc_now().
        name="bitstamp.trades.TradeEvent",
        make=_bitstamp_trade_event,
        payload=BITSTAMP_WS_TRADE,
        decimals={"trade.amount": ["amount_str"], "trade.price": ["price_str"]},
        us_timestamps={"trade.datetime": ["microtimestamp"]},
    ),

    # ---------------------------------------------------------------------------------------------------------------
    # bitstamp/order_book.py
    dict(
        name="bitstamp.order_book.OrderBook",
        make=lambda j: s_order_book.OrderBook(BITSTAMP_PAIR, j),
        payload=BITSTAMP_ORDER_BOOK,
        decimals=_BOOK_DEC,
        us_timestamps={"datetime": ["microtimestamp"]},
    ),
    dict(
        # when is dt.utc_now().
        name="bitstamp.order_book.OrderBookEvent",
        make=_bitstamp_order_book_event,
        payload=BITSTAMP_ORDER_BOOK,
        decimals=_prefixed(_BOOK_DEC, "order_book."),
        us_timestamps={"order_book.datetime": ["microtimestamp"]},
    ),
]


_DICT_KEYS = ("decimals", "ms_timestamps", "us_timestamps", "s_timestamps", "iso_timestamps", "statuses", "co_set")
_LIST_KEYS = ("computed", "skip_zero", "optional", "float_fields")
CATEGORIES = ("decimals", "ms_timestamps", "us_timestamps", "s_timestamps", "iso_timestamps", "statuses")


def _normalize(raw):
    entry = dict(raw)
    for key in _DICT_KEYS:
        entry[key] = copy.deepcopy(dict(entry.get(key) or {}))
    for key in _LIST_KEYS:
        entry[key] = copy.deepcopy(list(entry.get(key) or []))
    entry["payload"] = copy.deepcopy(entry["payload"])
    entry.setdefault("eager", False)
    unknown = set(entry) - set(_DICT_KEYS) - set(_LIST_KEYS) - {"name", "make", "payload", "eager"}
    assert not unknown, "Unknown keys %s in %s" % (unknown, entry.get("name"))
    return entry


WRAPPERS = [_normalize(raw) for raw in _RAW_WRAPPERS]
BY_NAME = {entry["name"]: entry for entry in WRAPPERS}


########################################################################################################################
# Checker support.

def build(entry, mutations=()):
    """Deep copies the base payload, applies (json_path, value) mutations and returns (wrapper, payload)."""
    payload = copy.deepcopy(entry["payload"])
    for path, value in mutations:
        set_path(payload, path, value)
    return entry["make"](payload), payload


def decimal_mutations(entry, prop, value):
    """The mutations needed to set the field behind a decimal property (includes co_set fields)."""
    ret = [(entry["decimals"][prop], value)]
    ret.extend((path, value) for path in entry["co_set"].get(prop, []))
    return ret


SELFCHECK_DECIMAL = "123.45600000"
SELFCHECK_MS = 1700000000123
SELFCHECK_US = 1700000000123456
SELFCHECK_S = 1700000000
SELFCHECK_ISO = "2023-11-14 22:13:20.123456"
SELFCHECK_DT_MS = datetime.datetime(2023, 11, 14, 22, 13, 20, 123000, tzinfo=UTC)
SELFCHECK_DT_US = datetime.datetime(2023, 11, 14, 22, 13, 20, 123456, tzinfo=UTC)
SELFCHECK_DT_S = datetime.datetime(2023, 11, 14, 22, 13, 20, tzinfo=UTC)


def _like_base(entry, path, int_value):
    """Timestamps are sent as the same JSON type the base payload uses (int or str)."""
    return int_value if isinstance(get_path(entry["payload"], path), int) else str(int_value)


def _check_datetime(failures, entry, prop, path, value, expected):
    try:
        obj, _ = build(entry, [(path, value)])
        got = get_attr(obj, prop)
        ok = (
            isinstance(got, datetime.datetime) and got.tzinfo is not None
            and got.utcoffset() == datetime.timedelta(0) and got == expected
            and got.microsecond == expected.microsecond
        )
        if not ok:
            failures.append("%s.%s: %r at %s decoded as %r, expected %r" % (
                entry["name"], prop, value, path, got, expected
            ))
    except Exception as e:  # noqa
        failures.append("%s.%s: %r at %s raised %r" % (entry["name"], prop, value, path, e))


def selfcheck(verbose=True):
    failures = []
    counts = {category: 0 for category in CATEGORIES}
    counts["status_values"] = 0
    counts["computed"] = 0
    names = set()

    for entry in WRAPPERS:
        name = entry["name"]
        assert name not in names, "Duplicate entry %s" % name
        names.add(name)
        pristine = copy.deepcopy(entry["payload"])

        # 1. The unmodified base payload must be accepted, and every listed property must be readable.
        try:
            base_obj, base_payload = build(entry)
        except Exception as e:  # noqa
            failures.append("%s: base payload rejected: %r" % (name, e))
            continue
        for category in CATEGORIES:
            for prop, spec in entry[category].items():
                path = spec["path"] if category == "statuses" else spec
                try:
                    get_path(entry["payload"], path)
                except Exception as e:  # noqa
                    failures.append("%s.%s: JSON path %s not in base payload: %r" % (name, prop, path, e))
                try:
                    get_attr(base_obj, prop)
                except Exception as e:  # noqa
                    failures.append("%s.%s: not readable on base payload: %r" % (name, prop, e))
        for prop in entry["computed"]:
            counts["computed"] += 1
            try:
                get_attr(base_obj, prop)
            except Exception as e:  # noqa
                failures.append("%s.%s: computed property not readable: %r" % (name, prop, e))
        for key in ("skip_zero", "optional"):
            for prop in entry[key]:
                if prop not in entry["decimals"]:
                    failures.append("%s: %s property %s is not in decimals" % (name, key, prop))
        for prop in entry["co_set"]:
            if prop not in entry["decimals"]:
                failures.append("%s: co_set property %s is not in decimals" % (name, prop))

        # 2. Decimals.
        expected = Decimal(SELFCHECK_DECIMAL)
        for prop in entry["decimals"]:
            counts["decimals"] += 1
            try:
                obj, _ = build(entry, decimal_mutations(entry, prop, SELFCHECK_DECIMAL))
                got = get_attr(obj, prop)
                # Same value AND same exponent / digits: Decimal("123.456") == Decimal("123.45600000") otherwise.
                if not (isinstance(got, Decimal) and got == expected and got.as_tuple() == expected.as_tuple()):
                    failures.append("%s.%s: %r at %s decoded as %r" % (
                        name, prop, SELFCHECK_DECIMAL, entry["decimals"][prop], got
                    ))
            except Exception as e:  # noqa
                failures.append("%s.%s: %r at %s raised %r" % (
                    name, prop, SELFCHECK_DECIMAL, entry["decimals"][prop], e
                ))
        # skip_zero: zero -> None. optional: missing key -> None.
        for prop in entry["skip_zero"]:
            try:
                obj, _ = build(entry, decimal_mutations(entry, prop, "0.00000000"))
                got = get_attr(obj, prop)
                if got is not None:
                    failures.append("%s.%s: skip_zero property returned %r for zero" % (name, prop, got))
            except Exception as e:  # noqa
                failures.append("%s.%s: skip_zero check raised %r" % (name, prop, e))
        for prop in entry["optional"]:
            try:
                payload = copy.deepcopy(entry["payload"])
                del_path(payload, entry["decimals"][prop])
                got = get_attr(entry["make"](payload), prop)
                if got is not None:
                    failures.append("%s.%s: optional property returned %r for a missing key" % (name, prop, got))
            except Exception as e:  # noqa
                failures.append("%s.%s: optional check raised %r" % (name, prop, e))

        # 3. Timestamps.
        for prop, path in entry["ms_timestamps"].items():
            counts["ms_timestamps"] += 1
            _check_datetime(failures, entry, prop, path, _like_base(entry, path, SELFCHECK_MS), SELFCHECK_DT_MS)
        for prop, path in entry["us_timestamps"].items():
            counts["us_timestamps"] += 1
            _check_datetime(failures, entry, prop, path, _like_base(entry, path, SELFCHECK_US), SELFCHECK_DT_US)
        for prop, path in entry["s_timestamps"].items():
            counts["s_timestamps"] += 1
            _check_datetime(failures, entry, prop, path, _like_base(entry, path, SELFCHECK_S), SELFCHECK_DT_S)
        for prop, path in entry["iso_timestamps"].items():
            counts["iso_timestamps"] += 1
            _check_datetime(failures, entry, prop, path, SELFCHECK_ISO, SELFCHECK_DT_US)

        # 4. Statuses.
        for prop, spec in entry["statuses"].items():
            counts["statuses"] += 1
            for status, expected_open in spec["table"].items():
                counts["status_values"] += 1
                try:
                    obj, _ = build(entry, [(spec["path"], status)])
                    got = get_attr(obj, prop)
                    if got is not expected_open:
                        failures.append("%s.%s: status %r gives %r, expected %r" % (
                            name, prop, status, got, expected_open
                        ))
                except Exception as e:  # noqa
                    failures.append("%s.%s: status %r raised %r" % (name, prop, status, e))

        assert entry["payload"] == pristine, "%s: base payload was mutated" % name

    summary = "payloads selfcheck: %d entries; %s; %d status values; %d computed (not checked for exactness)" % (
        len(WRAPPERS), ", ".join("%d %s" % (counts[category], category) for category in CATEGORIES),
        counts["status_values"], counts["computed"]
    )
    if verbose:
        for failure in failures:
            print("FAIL " + failure)
        print(summary + "; %d failures" % len(failures))
    assert not failures, "%d selfcheck failures:\n%s" % (len(failures), "\n".join(failures))
    return counts


########################################################################################################################
# Model exchanges for the account-level read API (C17): tiny in-memory exchanges that answer the REST calls which
# Account.get_order_info / get_open_orders / get_balances / cancel_order (Binance spot, cross and isolated margin) and
# Exchange.get_order_info / get_open_orders / get_balances / get_balance / cancel_order (Bitstamp) make, the way the real
# exchanges do: one resource per call, selected by the transmitted parameters. They are plugged into worlds.http.Server.route.
# Nothing here decodes anything: documents are stored and served as they are.


def request_params(req):
    """Parameters of a request received by worlds.http.Server (query string and form body)."""
    params = dict(urllib.parse.parse_qsl(req["body"].decode(), keep_blank_values=True))
    params.update(urllib.parse.parse_qsl(req["raw_path"].partition("?")[2], keep_blank_values=True))
    return params


class BinanceModel:
    """Stores per account kind ("spot", "cross", "iso"): orders (documents as GET order returns them), trades per order id,
    canceled-order documents per order id, the account document."""

    PATHS = {
        "/api/v3/order": ("spot", "order"), "/api/v3/myTrades": ("spot", "trades"), "/api/v3/openOrders": ("spot", "open"),
        "/api/v3/account": ("spot", "account"),
        "/sapi/v1/margin/order": ("margin", "order"), "/sapi/v1/margin/myTrades": ("margin", "trades"),
        "/sapi/v1/margin/openOrders": ("margin", "open"), "/sapi/v1/margin/account": ("cross", "account"),
        "/sapi/v1/margin/isolated/account": ("iso", "account"),
    }

    def __init__(self):
        self.orders = {"spot": [], "cross": [], "iso": []}
        self.trades = {"spot": {}, "cross": {}, "iso": {}}
        self.canceled = {"spot": {}, "cross": {}, "iso": {}}
        self.account = {"spot": {"balances": []}, "cross": {"userAssets": []}, "iso": {"assets": []}}
        self.log = []

    @staticmethod
    def _error(status, code, msg):
        return status, {"code": code, "msg": msg}

    def route(self, req):
        path = req["raw_path"].partition("?")[0]
        params = request_params(req)
        where = self.PATHS.get(path)
        if where is None:
            return self._error(404, -1, f"unknown endpoint {path}")
        kind, what = where
        if kind == "margin":
            flag = params.get("isIsolated", "false").lower()
            if flag not in ("true", "false"):
                return self._error(400, -1100, "Illegal characters found in parameter 'isIsolated'")
            kind = "iso" if flag == "true" else "cross"
        self.log.append((req["method"], kind, what, params))
        if what == "account":
            return (200, self.account[kind]) if req["method"] == "GET" else self._error(405, -1, "method")
        if what == "open":
            if req["method"] != "GET":
                return self._error(405, -1, "method")
            sym = params.get("symbol")
            return 200, [o for o in self.orders[kind] if o.get("_open") and (sym is None or o["symbol"] == sym)]
        if what == "trades":
            if req["method"] != "GET" or "symbol" not in params:
                return self._error(400, -1102, "Mandatory parameter 'symbol' was not sent")
            out = []
            for oid, trades in self.trades[kind].items():
                if "orderId" in params and str(oid) != params["orderId"]:
                    continue
                out += [t for t in trades if t["symbol"] == params["symbol"]]
            return 200, out
        # order: GET = query, DELETE = cancel
        if "symbol" not in params:
            return self._error(400, -1102, "Mandatory parameter 'symbol' was not sent")
        match = [o for o in self.orders[kind] if o["symbol"] == params["symbol"] and (
            ("orderId" in params and str(o["orderId"]) == params["orderId"]) or
            ("origClientOrderId" in params and o["clientOrderId"] == params["origClientOrderId"]))]
        if len(match) != 1:
            return self._error(400, -2013, "Order does not exist.")
        if req["method"] == "GET":
            return 200, {k: v for k, v in match[0].items() if not k.startswith("_")}
        if req["method"] == "DELETE":
            doc = self.canceled[kind].get(match[0]["orderId"])
            return (200, doc) if doc is not None else self._error(400, -2011, "Unknown order sent.")
        return self._error(405, -1, "method")


class BitstampModel:
    def __init__(self):
        self.orders = []        # order_status documents, plus "_pair" (url symbol) and "_open_doc" (open_orders entry or None)
        self.balances = []      # account_balances entries
        self.canceled = {}      # id -> cancel_order document
        self.log = []

    def route(self, req):
        path = req["raw_path"].partition("?")[0]
        params = request_params(req)
        self.log.append((req["method"], path, params))
        if req["method"] != "POST":
            return 405, {"status": "error", "reason": "method", "code": "API0000"}
        if path == "/api/v2/order_status/":
            match = [o for o in self.orders if ("id" in params and str(o["id"]) == params["id"]) or
                     ("client_order_id" in params and o.get("client_order_id") == params["client_order_id"])]
            if len(match) != 1:
                return 404, {"status": "error", "reason": "Order not found.", "code": "API5014"}
            doc = {k: v for k, v in match[0].items() if not k.startswith("_")}
            if params.get("omit_transactions", "").lower() == "true":
                doc.pop("transactions", None)
            return 200, doc
        m = re.fullmatch(r"/api/v2/open_orders/([a-z0-9]+)/", path)
        if m:
            return 200, [o["_open_doc"] for o in self.orders if o.get("_open_doc") is not None and m.group(1) in ("all", o["_pair"])]
        if path == "/api/v2/account_balances/":
            return 200, list(self.balances)
        m = re.fullmatch(r"/api/v2/account_balances/([a-z0-9]+)/", path)
        if m:
            match = [x for x in self.balances if x["currency"] == m.group(1)]
            if len(match) != 1:
                return 404, {"status": "error", "reason": "Currency not found.", "code": "API0021"}
            return 200, match[0]
        if path == "/api/v2/cancel_order/":
            doc = self.canceled.get(params.get("id"))
            if doc is None:
                return 404, {"status": "error", "reason": "Order not found.", "code": "API5014"}
            return 200, doc
        return 404, {"status": "error", "reason": f"unknown endpoint {path}", "code": "API0000"}


if __name__ == "__main__":
    selfcheck()

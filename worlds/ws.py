"""Websocket world (DESIGN.md section 4, C18): the real websocket clients with an injected fake session whose ws_connect()
returns a scripted websocket and whose post/put return scripted HTTP answers, all on the virtual loop."""
import asyncio
import collections
import json

from urllib.parse import urlparse

import aiohttp


class FakeWS:
    def __init__(self, env, idx):
        self.env = env
        self.idx = idx
        self.closed = False
        self.sent = []      # (virtual time, decoded frame)
        self.inbox = collections.deque()
        self.wake = None
        self.t_open = env.loop.time()
        self.t_closed = None  # virtual time at which the connection went down (any cause)

    def mark_closed(self):
        if not self.closed:
            self.closed = True
        if self.t_closed is None:
            self.t_closed = self.env.loop.time()

    def __aiter__(self):
        return self

    async def __anext__(self):
        while True:
            if self.inbox:
                kind, data = self.inbox.popleft()
                if kind == "text":
                    return aiohttp.WSMessage(aiohttp.WSMsgType.TEXT, data, None)
                if kind == "binary":
                    return aiohttp.WSMessage(aiohttp.WSMsgType.BINARY, data, None)
                if kind == "close":
                    self.mark_closed()
                    raise StopAsyncIteration
                if kind == "drop":
                    self.mark_closed()
                    raise ConnectionResetError("connection dropped")
            if self.closed:
                raise StopAsyncIteration
            self.wake = self.env.loop.create_future()
            await self.wake

    def deliver(self, kind, data=None):
        self.inbox.append((kind, data))
        if self.wake and not self.wake.done():
            self.wake.set_result(None)

    async def send_str(self, s):
        if self.env.send_delay:
            delay, self.env.send_delay = self.env.send_delay, 0
            await asyncio.sleep(delay)
        if self.closed:
            raise ConnectionResetError("closed")
        frame = json.loads(s)
        env = self.env
        # Bitstamp: websocket auth tokens expire; the server checks the token on every private bts:subscribe and refuses an
        # expired one (the frame is recorded as refused and does not count as a subscription)
        if env.token_valid_sec is not None and frame.get("event") == "bts:subscribe" and "auth" in frame.get("data", {}):
            issued = env.token_times.get(frame["data"]["auth"])
            if issued is None or env.loop.time() - issued > env.token_valid_sec:
                frame = dict(frame, event="bts:subscribe-refused")
                self.sent.append((env.loop.time(), frame))
                self.deliver("text", json.dumps({"event": "bts:error", "channel": "",
                                                 "data": {"code": 4009, "message": "Connection is unauthorized."}}))
                return
        self.sent.append((env.loop.time(), frame))

    async def close(self):
        self.mark_closed()
        if self.wake and not self.wake.done():
            self.wake.set_result(None)


class _WSCtx:
    def __init__(self, env):
        self.env = env
        self.ws = None

    async def __aenter__(self):
        env = self.env
        env.connect_times.append(env.loop.time())
        await asyncio.sleep(0)
        if env.fail_next_connect:
            env.fail_next_connect = False
            raise aiohttp.ClientConnectionError("connection refused")
        self.ws = FakeWS(env, len(env.conns))
        env.conns.append(self.ws)
        return self.ws

    async def __aexit__(self, *a):
        if self.ws is not None:
            self.ws.mark_closed()


class _Resp:
    def __init__(self, payload):
        self.payload = payload
        self.headers = {"Content-Type": "application/json"}
        self.ok = True
        self.status = 200
        self.reason = "OK"

    async def json(self):
        return self.payload


def _form_fields(kw):
    """name -> value of what the client sends as form data / query parameters (aiohttp.FormData or plain dicts)."""
    out = {}
    for src in (kw.get("params"), kw.get("data")):
        if src is None:
            continue
        fields = getattr(src, "_fields", None)
        if fields is not None:
            for f in fields:
                try:
                    out[f[0].get("name")] = f[2]
                except Exception:  # noqa - an unexpected layout is simply not decoded
                    pass
        elif isinstance(src, dict):
            out.update(src)
    return out


class _HTTPCtx:
    """Scripted HTTP answer: Binance listen key (create / keep alive; spot, cross margin and isolated margin endpoints) or
    Bitstamp websocket token. Every listen-key call is recorded in env.key_events as
    (virtual time, 'create' | 'keepalive' | 'failed-POST' | 'failed-PUT', listen key, endpoint path, symbol);
    env.key_owner maps each issued key to the (endpoint path, symbol) that issued it."""

    def __init__(self, env, method, url, kw):
        self.env, self.method, self.url, self.kw = env, method, url, kw

    async def __aenter__(self):
        env = self.env
        if env.http_delay:
            delay, env.http_delay = env.http_delay, 0
            await asyncio.sleep(delay)
        else:
            await asyncio.sleep(0)
        path = urlparse(self.url).path
        is_key = "userDataStream" in path
        if is_key:
            fields = _form_fields(self.kw)
            symbol, key = fields.get("symbol"), fields.get("listenKey")
        if env.fail_next_http:
            env.fail_next_http = False
            env.http_fail_times.append(env.loop.time())
            if is_key:
                env.key_events.append((env.loop.time(), "failed-" + self.method, key, path, symbol))
            raise aiohttp.ClientConnectionError("http failure")
        if is_key:
            if self.method == "POST":
                # as documented by Binance: while the account has an active listen key, that key is returned (and its
                # validity extended); a new key is issued only when there is none or it has expired
                active = [k for k, own in env.key_owner.items() if own == (path, symbol) and k not in env.expired_at]
                if active:
                    key = active[-1]
                else:
                    env.nkeys += 1
                    key = f"key{env.nkeys}"
                    env.key_owner[key] = (path, symbol)
                env.key_events.append((env.loop.time(), "create", key, path, symbol))
                return _Resp({"listenKey": key})
            env.key_events.append((env.loop.time(), "keepalive", key, path, symbol))
            return _Resp({})
        if "websockets_token" in self.url:
            env.tokens += 1
            env.token_times[f"tok{env.tokens}"] = env.loop.time()
            return _Resp({"token": f"tok{env.tokens}", "user_id": "77", "valid_sec": 60})
        return _Resp({})

    async def __aexit__(self, *a):
        pass


class FakeSession:
    def __init__(self, env):
        self.env = env

    def ws_connect(self, url, heartbeat=None):
        return _WSCtx(self.env)

    def post(self, url, **kw):
        return _HTTPCtx(self.env, "POST", str(url), kw)

    def put(self, url, **kw):
        return _HTTPCtx(self.env, "PUT", str(url), kw)

    def get(self, url, **kw):
        return _HTTPCtx(self.env, "GET", str(url), kw)

    def delete(self, url, **kw):
        return _HTTPCtx(self.env, "DELETE", str(url), kw)


class Env:
    def __init__(self, loop):
        self.loop = loop
        self.conns = []
        self.connect_times = []
        self.fail_next_connect = False
        self.fail_next_http = False
        self.http_delay = 0
        self.send_delay = 0
        self.nkeys = 0
        self.tokens = 0
        self.token_times = {}        # Bitstamp websocket token -> virtual time of issue
        self.token_valid_sec = None  # set by a scenario to make tokens expire (Bitstamp: 60 s)
        self.key_events = []
        self.http_fail_times = []  # virtual times at which a scripted HTTP failure was delivered
        self.key_owner = {}   # listen key -> (endpoint path, symbol) that issued it
        self.expired_at = {}  # listen key -> virtual time at which the server declared it expired

    def live(self):
        return self.conns[-1] if self.conns and not self.conns[-1].closed else None

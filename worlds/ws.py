"""Websocket world (DESIGN.md section 4, C18): the real websocket clients with an injected fake session whose ws_connect()
returns a scripted websocket and whose post/put return scripted HTTP answers, all on the virtual loop."""
import asyncio
import collections
import json

import aiohttp


class FakeWS:
    def __init__(self, env, idx):
        self.env = env
        self.idx = idx
        self.closed = False
        self.sent = []      # (virtual time, decoded frame)
        self.inbox = collections.deque()
        self.wake = None
        self.t_open = env.loop.time()

    def __aiter__(self):
        return self

    async def __anext__(self):
        while True:
            if self.inbox:
                kind, data = self.inbox.popleft()
                if kind == "text":
                    return aiohttp.WSMessage(aiohttp.WSMsgType.TEXT, data, None)
                if kind == "binary":
                    return aiohttp.WSMessage(aiohttp.WSMsgType.BINARY, data, None)
                if kind == "close":
                    self.closed = True
                    raise StopAsyncIteration
                if kind == "drop":
                    self.closed = True
                    raise ConnectionResetError("connection dropped")
            if self.closed:
                raise StopAsyncIteration
            self.wake = self.env.loop.create_future()
            await self.wake

    def deliver(self, kind, data=None):
        self.inbox.append((kind, data))
        if self.wake and not self.wake.done():
            self.wake.set_result(None)

    async def send_str(self, s):
        if self.env.send_delay:
            delay, self.env.send_delay = self.env.send_delay, 0
            await asyncio.sleep(delay)
        if self.closed:
            raise ConnectionResetError("closed")
        self.sent.append((self.env.loop.time(), json.loads(s)))

    async def close(self):
        self.closed = True
        if self.wake and not self.wake.done():
            self.wake.set_result(None)


class _WSCtx:
    def __init__(self, env):
        self.env = env
        self.ws = None

    async def __aenter__(self):
        env = self.env
        env.connect_times.append(env.loop.time())
        await asyncio.sleep(0)
        if env.fail_next_connect:
            env.fail_next_connect = False
            raise aiohttp.ClientConnectionError("connection refused")
        self.ws = FakeWS(env, len(env.conns))
        env.conns.append(self.ws)
        return self.ws

    async def __aexit__(self, *a):
        if self.ws is not None:
            self.ws.closed = True


class _Resp:
    def __init__(self, payload):
        self.payload = payload
        self.headers = {"Content-Type": "application/json"}
        self.ok = True
        self.status = 200
        self.reason = "OK"

    async def json(self):
        return self.payload


class _HTTPCtx:
    """Scripted HTTP answer: Binance listen key (create / keep alive) or Bitstamp websocket token."""

    def __init__(self, env, method, url, kw):
        self.env, self.method, self.url, self.kw = env, method, url, kw

    async def __aenter__(self):
        env = self.env
        if env.http_delay:
            delay, env.http_delay = env.http_delay, 0
            await asyncio.sleep(delay)
        else:
            await asyncio.sleep(0)
        if env.fail_next_http:
            env.fail_next_http = False
            if "userDataStream" in self.url:
                env.key_events.append((env.loop.time(), "failed-" + self.method, None))
            raise aiohttp.ClientConnectionError("http failure")
        if "userDataStream" in self.url:
            if self.method == "POST":
                env.nkeys += 1
                key = f"key{env.nkeys}"
                env.key_events.append((env.loop.time(), "create", key))
                return _Resp({"listenKey": key})
            data = self.kw.get("data")
            key = None
            if data is not None:
                fields = getattr(data, "_fields", None)
                if fields:
                    for f in fields:
                        if f[0].get("name") == "listenKey":
                            key = f[2]
            env.key_events.append((env.loop.time(), "keepalive", key))
            return _Resp({})
        if "websockets_token" in self.url:
            env.tokens += 1
            return _Resp({"token": f"tok{env.tokens}", "user_id": "77"})
        return _Resp({})

    async def __aexit__(self, *a):
        pass


class FakeSession:
    def __init__(self, env):
        self.env = env

    def ws_connect(self, url, heartbeat=None):
        return _WSCtx(self.env)

    def post(self, url, **kw):
        return _HTTPCtx(self.env, "POST", str(url), kw)

    def put(self, url, **kw):
        return _HTTPCtx(self.env, "PUT", str(url), kw)

    def get(self, url, **kw):
        return _HTTPCtx(self.env, "GET", str(url), kw)

    def delete(self, url, **kw):
        return _HTTPCtx(self.env, "DELETE", str(url), kw)


class Env:
    def __init__(self, loop):
        self.loop = loop
        self.conns = []
        self.connect_times = []
        self.fail_next_connect = False
        self.fail_next_http = False
        self.http_delay = 0
        self.send_delay = 0
        self.nkeys = 0
        self.tokens = 0
        self.key_events = []

    def live(self):
        return self.conns[-1] if self.conns and not self.conns[-1].closed else None

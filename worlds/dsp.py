"""Dispatcher world: helpers to run a real basana dispatcher on the virtual loop with chooser-controlled handler
suspension (DESIGN.md 2.2, 4).

Clock seam. The library's notion of "now" (basana.core.dt.utc_now) is NOT replaced: its body runs. What is substituted
is the clock underneath it: the `datetime` attribute of basana.core.dt and basana.core.dispatcher becomes a proxy of the
datetime module whose datetime.now(tz) / utcnow() / today() read the virtual loop, and a `time` attribute (if one of those
modules has or gets one) becomes mc.vtime.VirtualTime. A correct refactoring of utc_now (datetime.now(timezone.utc),
fromtimestamp(time.time(), utc), ...) or of its callers therefore keeps working, and a wrong one (e.g. local wall-clock time
labelled UTC) is visible when the process's local time zone is not UTC (local_tz()). If the probe after patching shows that
the library's clock does not follow the virtual loop at all (an unforeseen way of reading the time), the old wholesale
replacement of utc_now is used as a fall-back and loop.clock_seam says so.
"""
import asyncio
import contextlib
import datetime
import os
import time as _time

from mc.vloop import VLoop, Deadlock, Horizon, StepCap, Livelock
from mc.vtime import ModuleProxy, VirtualTime

EPOCH = datetime.datetime(2020, 1, 1, tzinfo=datetime.timezone.utc)
_EPOCH_TS = EPOCH.timestamp()


def T(s):
    return EPOCH + datetime.timedelta(seconds=s)


def secs(when):
    return (when - EPOCH).total_seconds()


class Gates:
    """Suspension patterns of handler invocations, decided by the chooser:
    0 = run to completion, 1 = yield once, 2 = yield twice, 3 = wait for an external gate. Gates are released one at a
    time, in every order, whenever the loop is quiescent."""

    def __init__(self, ch, kinds=4):
        self.ch = ch
        self.kinds = kinds
        self.pending = []
        self.serial = 0

    async def suspend(self, tag):
        k = self.ch.choose(self.kinds, "susp:" + tag)
        if k == 1:
            await asyncio.sleep(0)
        elif k == 2:
            await asyncio.sleep(0)
            await asyncio.sleep(0)
        elif k == 3:
            f = asyncio.get_running_loop().create_future()
            self.serial += 1
            self.pending.append((self.serial, f))
            await f
        return k

    def on_quiescent(self, loop):
        pend = [(s, f) for (s, f) in self.pending if not f.done()]
        self.pending = pend
        if not pend:
            return False
        i = self.ch.choose(len(pend), "gate")
        pend[i][1].set_result(None)
        return True


@contextlib.contextmanager
def local_tz(name):
    """Runs the block with the process's local time zone set to `name` (a POSIX TZ string such as 'JST-9' or 'EST5': no
    zone database needed); None = leave it alone."""
    if name is None:
        yield
        return
    old = os.environ.get("TZ")
    os.environ["TZ"] = name
    _time.tzset()
    try:
        yield
    finally:
        if old is None:
            os.environ.pop("TZ", None)
        else:
            os.environ["TZ"] = old
        _time.tzset()


class _VMeta(type):
    def __instancecheck__(cls, obj):
        return isinstance(obj, datetime.datetime)

    def __subclasscheck__(cls, sub):
        return issubclass(sub, datetime.datetime)


def virtual_datetime_class(vnow):
    """A stand-in for the class datetime.datetime whose 'what time is it' constructors read vnow() (an aware UTC
    datetime); everything else, including instances it creates, is the real thing."""

    class VDatetime(datetime.datetime, metaclass=_VMeta):
        def __new__(cls, *args, **kwargs):
            return datetime.datetime(*args, **kwargs)

        @classmethod
        def now(cls, tz=None):
            v = vnow()
            if tz is not None:
                return v.astimezone(tz)
            return v.astimezone().replace(tzinfo=None)  # naive local time, as the real one (honours TZ / tzset)

        @classmethod
        def utcnow(cls):
            return vnow().replace(tzinfo=None)

        @classmethod
        def today(cls):
            return cls.now()

    VDatetime.__name__ = "datetime"
    VDatetime.__qualname__ = "datetime"
    return VDatetime


class ClockSeam:
    """Installs / removes the virtual clock underneath basana's clock functions."""

    MODULES = ("basana.core.dt", "basana.core.dispatcher")

    def __init__(self, loop, mode):
        self.loop = loop
        self.mode = mode  # True / "deep": patch underneath; "replace": replace dt.utc_now wholesale (legacy)
        self.saved = []
        self.kind = None

    def vnow(self):
        return EPOCH + datetime.timedelta(seconds=self.loop.time())

    _MISSING = object()

    def _set(self, mod, name, value):
        self.saved.append((mod, name, getattr(mod, name, self._MISSING)))
        setattr(mod, name, value)

    def install(self):
        import importlib
        bdt = importlib.import_module("basana.core.dt")
        if self.mode != "replace":
            vdt = virtual_datetime_class(self.vnow)
            vtime = VirtualTime(lambda: _EPOCH_TS + self.loop.time())
            for name in self.MODULES:
                mod = importlib.import_module(name)
                cur = getattr(mod, "datetime", None)
                if cur is datetime:
                    self._set(mod, "datetime", ModuleProxy(datetime, datetime=vdt))
                elif cur is datetime.datetime:  # from datetime import datetime
                    self._set(mod, "datetime", vdt)
                if getattr(mod, "time", None) is _time:
                    self._set(mod, "time", vtime)
            self.kind = "underneath"
            try:
                probe = bdt.utc_now()
                off = abs((probe - self.vnow()).total_seconds())
            except Exception:
                off = None  # a broken utc_now is the library's business: the run will show it
            if off is not None and off > 20 * 3600:
                # the library reads the time in a way this seam does not reach: fall back to replacing utc_now
                self.remove()
                self.mode = "replace"
        if self.mode == "replace":
            self._set(bdt, "utc_now", self.vnow)
            self.kind = "utc_now-replaced"
        return self

    def remove(self):
        while self.saved:
            mod, name, val = self.saved.pop()
            if val is self._MISSING:
                delattr(mod, name)
            else:
                setattr(mod, name, val)


def run_on_vloop(main_factory, *, on_step=None, on_quiescent=None, horizon=None, max_steps=200000, patch_clock=True):
    """Runs main_factory(loop) (a coroutine) on a fresh virtual loop. Returns (outcome, exception, loop).
    outcome in returned / cancelled / raised / deadlock / horizon / stepcap / livelock.
    patch_clock: True = virtual clock underneath basana's clock functions (see the module docstring), "replace" = replace
    basana.core.dt.utc_now itself, False = leave the clock alone. loop.clock_seam tells which one was in force."""
    loop = VLoop()
    seam = None
    if patch_clock:
        seam = ClockSeam(loop, patch_clock).install()
    loop.clock_seam = seam.kind if seam else None
    exc = None
    try:
        try:
            t = loop.run(main_factory(loop), on_step=on_step, on_quiescent=on_quiescent, horizon=horizon,
                         max_steps=max_steps)
            if t.cancelled():
                out = "cancelled"
            elif t.exception() is not None:
                exc = t.exception()
                out = "raised"
            else:
                out = "returned"
        except Deadlock:
            out = "deadlock"
        except Horizon:
            out = "horizon"
        except StepCap:
            out = "stepcap"
        except Livelock:
            out = "livelock"
        loop.end_steps = loop.steps
        loop.shutdown()
    finally:
        if seam is not None:
            seam.remove()
    return out, exc, loop

"""Dispatcher world: helpers to run a real basana dispatcher on the virtual loop with chooser-controlled handler
suspension (DESIGN.md 2.2, 4)."""
import asyncio
import datetime

from mc.vloop import VLoop, Deadlock, Horizon, StepCap, Livelock

EPOCH = datetime.datetime(2020, 1, 1, tzinfo=datetime.timezone.utc)


def T(s):
    return EPOCH + datetime.timedelta(seconds=s)


def secs(when):
    return (when - EPOCH).total_seconds()


class Gates:
    """Suspension patterns of handler invocations, decided by the chooser:
    0 = run to completion, 1 = yield once, 2 = yield twice, 3 = wait for an external gate. Gates are released one at a
    time, in every order, whenever the loop is quiescent."""

    def __init__(self, ch, kinds=4):
        self.ch = ch
        self.kinds = kinds
        self.pending = []
        self.serial = 0

    async def suspend(self, tag):
        k = self.ch.choose(self.kinds, "susp:" + tag)
        if k == 1:
            await asyncio.sleep(0)
        elif k == 2:
            await asyncio.sleep(0)
            await asyncio.sleep(0)
        elif k == 3:
            f = asyncio.get_running_loop().create_future()
            self.serial += 1
            self.pending.append((self.serial, f))
            await f
        return k

    def on_quiescent(self, loop):
        pend = [(s, f) for (s, f) in self.pending if not f.done()]
        self.pending = pend
        if not pend:
            return False
        i = self.ch.choose(len(pend), "gate")
        pend[i][1].set_result(None)
        return True


def run_on_vloop(main_factory, *, on_step=None, on_quiescent=None, horizon=None, max_steps=200000, patch_clock=True):
    """Runs main_factory(loop) (a coroutine) on a fresh virtual loop. Returns (outcome, exception, loop).
    outcome in returned / cancelled / raised / deadlock / horizon / stepcap / livelock."""
    loop = VLoop()
    restore = None
    if patch_clock:
        from basana.core import dt as bdt
        restore = bdt.utc_now
        bdt.utc_now = lambda: EPOCH + datetime.timedelta(seconds=loop.time())
    exc = None
    try:
        try:
            t = loop.run(main_factory(loop), on_step=on_step, on_quiescent=on_quiescent, horizon=horizon,
                         max_steps=max_steps)
            if t.cancelled():
                out = "cancelled"
            elif t.exception() is not None:
                exc = t.exception()
                out = "raised"
            else:
                out = "returned"
        except Deadlock:
            out = "deadlock"
        except Horizon:
            out = "horizon"
        except StepCap:
            out = "stepcap"
        except Livelock:
            out = "livelock"
        loop.end_steps = loop.steps
        loop.shutdown()
    finally:
        if restore is not None:
            bdt.utc_now = restore
    return out, exc, loop

"""Oracles of the backtesting-exchange world (DESIGN.md section 3). Every monitor looks at ONE transition of the real
exchange: the public-API snapshot before, the action, what it raised, the snapshot after, and the new order events.
Reference values are computed independently of the implementation, in exact arithmetic.

A monitor returns a list of (clause, detail). MONITORS maps property id -> list of monitors.
"""
import collections
from decimal import Decimal as D, ROUND_DOWN, ROUND_HALF_EVEN, ROUND_UP
from fractions import Fraction as F

from worlds.exch import PAIRS, SHAPES, T, call, sym_prec, pair_prec

ZERO = D(0)


def q(x, prec, rounding=ROUND_HALF_EVEN):
    return D(x).quantize(D(1).scaleb(-prec), rounding=rounding)


def on_grid(x, prec):
    return D(x) == q(x, prec, ROUND_DOWN)


def pair_qp(cfg, pi):
    """Quote precision of a pair (cross pairs are quoted in a base symbol of another pair)."""
    return pair_prec(cfg, pi)[1]


def grid_prec(cfg, s):
    """The finest precision configured for a symbol: its own (when configured) and that of every traded pair it is part
    of. Amounts of that symbol move on this grid."""
    precs = [] if cfg.get("dpi") else [sym_prec(cfg, s)]
    for pi in range(cfg.get("pairs", 1)):
        if PAIRS[pi].base_symbol == s:
            precs.append(pair_prec(cfg, pi)[0])
        if PAIRS[pi].quote_symbol == s:
            precs.append(pair_prec(cfg, pi)[1])
    return max(precs)


class Tr:
    """One transition, as seen by the monitors."""
    __slots__ = ("w", "a", "raised", "placed", "new_loans", "before", "after", "events", "cfg", "hist")


def info_tuple(o):
    return (o.id, o.is_open, o.operation, o.amount, o.amount_filled, o.amount_remaining, o.quote_amount_filled,
            tuple(sorted(o.fees.items())), o.limit_price, o.stop_price, tuple(sorted(o.loan_ids)))


def loan_tuple(lo):
    return (lo.id, lo.is_open, lo.borrowed_symbol, lo.borrowed_amount, tuple(sorted(lo.outstanding_interest.items())),
            tuple(sorted(lo.paid_interest.items())))


def crashes(tr, on):
    """Internal errors (anything that is not a basana Error) are violations wherever they surface."""
    if tr.raised and tr.raised[0] == "crash" and ((tr.a[0] if tr.a[0] != "bar=" else "bar") in on):
        return [("internal-error", f"{tr.a[0]} raised {tr.raised[1]}: {tr.raised[2]}")]
    return []


# ---- C01 -----------------------------------------------------------------------------------------------------------
def m_ledger(tr):
    bad = crashes(tr, ("bar", "ord", "cancel", "loan", "repay"))
    cfg = tr.cfg
    exp = collections.defaultdict(lambda: ZERO)
    for s, a in cfg["init"]:
        exp[s] += D(str(a))
    meta_by_id = {oid: m for oid, m in zip(tr.w.ids, tr.w.meta)}
    for oid, o in tr.after.orders.items():
        m = meta_by_id.get(oid)
        if m is None:
            continue
        p = PAIRS[m["pair"]]
        sign = 1 if m["side"] == "B" else -1
        exp[p.base_symbol] += sign * o.amount_filled
        exp[p.quote_symbol] -= sign * o.quote_amount_filled
        for s, f in o.fees.items():
            exp[s] -= f
    for lo in tr.after.loans.values():
        for s, v in lo.paid_interest.items():
            exp[s] -= v
    for s in set(exp) | set(tr.after.bal):
        total = tr.after.bal.get(s, (ZERO, ZERO, ZERO, ZERO))[3]
        if total != exp[s]:
            bad.append(("ledger", f"{s}: total {total} but initial + fills - fees - interest = {exp[s]}"))
    if tr.a[0] not in ("bar", "bar="):
        for oid, o in tr.after.orders.items():
            pb = tr.before.orders.get(oid)
            if pb and (o.amount_filled, o.quote_amount_filled, o.fees) != (pb.amount_filled, pb.quote_amount_filled, pb.fees):
                bad.append(("fill-outside-bar", f"order changed its fills during {tr.a[0]}"))
        # totals may only change by interest paid (auto-repay on cancel, explicit repay)
        paid_b = collections.defaultdict(lambda: ZERO)
        paid_a = collections.defaultdict(lambda: ZERO)
        for lo in tr.before.loans.values():
            for s, v in lo.paid_interest.items():
                paid_b[s] += v
        for lo in tr.after.loans.values():
            for s, v in lo.paid_interest.items():
                paid_a[s] += v
        for s in set(tr.after.bal) | set(tr.before.bal):
            dt = tr.after.bal.get(s, (0, 0, 0, ZERO))[3] - tr.before.bal.get(s, (0, 0, 0, ZERO))[3]
            if dt != -(paid_a[s] - paid_b[s]):
                bad.append(("total-changed", f"{tr.a[0]} changed the {s} total by {dt} (interest paid {paid_a[s] - paid_b[s]})"))
    return bad


# ---- C02 -----------------------------------------------------------------------------------------------------------
def m_solvency(tr):
    bad = crashes(tr, ("bar",))
    for s, (av, hold, bor, total) in tr.after.bal.items():
        if av < 0 or hold < 0 or bor < 0:
            bad.append(("negative-balance", f"{s}: available={av} hold={hold} borrowed={bor}"))
        if total != av + hold - bor:
            bad.append(("total-formula", f"{s}: total={total} != {av}+{hold}-{bor}"))
    if tr.after.single_bal is not None:
        for s, v in tr.after.single_bal.items():
            av, hold, bor, total = v
            if av < 0 or hold < 0 or bor < 0 or total != av + hold - bor:
                bad.append(("negative-balance", f"get_balance({s}) = {v}"))
            if v != tr.after.bal.get(s, (ZERO, ZERO, ZERO, ZERO)):
                bad.append(("balance-single", f"get_balance({s}) = {v} but get_balances() says {tr.after.bal.get(s)}"))
    if tr.after.loan_reads is not None:
        open_listed = sorted(k for k in tr.after.loan_reads["filtered"][(None, True)])
        if open_listed != sorted(loan_tuple(lo) for lo in tr.after.loans.values() if lo.is_open):
            bad.append(("open-loans-listing", "get_loans(is_open=True) does not list exactly the open loans of get_loans()"))
    open_principal = collections.defaultdict(lambda: ZERO)
    for lo in tr.after.loans.values():
        if lo.is_open:
            open_principal[lo.borrowed_symbol] += lo.borrowed_amount
    for s in set(open_principal) | set(tr.after.bal):
        bor = tr.after.bal.get(s, (ZERO, ZERO, ZERO, ZERO))[2]
        if bor != open_principal[s]:
            bad.append(("borrowed-vs-loans", f"{s}: borrowed={bor} but open loans sum to {open_principal[s]}"))
    return bad


# ---- C05 -----------------------------------------------------------------------------------------------------------
def m_lifecycle(tr):
    bad = crashes(tr, ("bar", "cancel", "ord"))
    w = tr.w
    new_by_order = collections.defaultdict(list)
    for ev in tr.events:
        new_by_order[ev.order.id].append(ev)
    known = set(w.ids)
    if set(tr.after.orders) != known or len(tr.after.orders) != len(w.ids):
        bad.append(("listing-all", f"get_orders() returned {len(tr.after.orders)} orders, {len(w.ids)} were created"))
    for k, oid in enumerate(w.ids):
        info = tr.after.orders.get(oid)
        if info is None:
            continue
        m = w.meta[k]
        pb = tr.before.orders.get(oid)
        if info.amount_filled + info.amount_remaining != info.amount or info.amount_filled > info.amount \
                or info.amount != m["amt"]:
            bad.append(("amounts", f"order {k}: filled {info.amount_filled} + remaining {info.amount_remaining} vs {info.amount}"))
        cancelled = k in w.cancelled
        fok = m["kind"] in ("mkt", "stp") and w.bars_since[k] >= 1
        exp_open = not (info.amount_filled == info.amount or cancelled or fok)
        if info.is_open != exp_open:
            bad.append(("open-state", f"order {k} ({m['kind']}) is_open={info.is_open}, expected {exp_open} "
                        f"(filled {info.amount_filled}/{info.amount}, cancelled={cancelled}, bars since acceptance="
                        f"{w.bars_since[k]})"))
        if m["kind"] in ("mkt", "stp") and ZERO < info.amount_filled < info.amount:
            bad.append(("partial-fill-or-kill", f"{m['kind']} order {k} partially filled {info.amount_filled}/{info.amount}"))
        got = new_by_order.get(oid, [])
        if pb is not None:
            if info.amount_filled < pb.amount_filled:
                bad.append(("filled-decreased", f"order {k}: {pb.amount_filled} -> {info.amount_filled}"))
            if not pb.is_open and info_tuple(info) != info_tuple(pb):
                bad.append(("closed-order-changed", f"order {k}: {info_tuple(pb)[1:]} -> {info_tuple(info)[1:]}"))
            filled_now = info.amount_filled > pb.amount_filled
            closed_now = pb.is_open and not info.is_open
            nexp = (1 if filled_now else 0) + (1 if closed_now and not filled_now else 0)
            if w.t == 0:
                nexp = 0  # before the first event there is no time to stamp an event with
            if not (tr.raised and tr.a[0] not in ("bar", "bar=")):
                if len(got) != nexp:
                    bad.append(("event-count", f"order {k} ({m['kind']}): {len(got)} events for "
                                f"{'a fill' if filled_now else ''}{' closure' if closed_now else ''} (expected {nexp})"))
        else:
            # placed by this action: exactly one acceptance event (none before the first event: there is no time yet)
            if w.t == 0:
                if got:
                    bad.append(("acceptance-event", f"order {k}: {len(got)} events for an order placed before the first event"))
            elif len(got) != 1 or got[0].order.amount_filled != 0 or not got[0].order.is_open:
                bad.append(("acceptance-event", f"order {k}: {len(got)} events at acceptance"))
        if got:
            if info_tuple(got[-1].order) != info_tuple(info) and not (tr.raised and tr.a[0] not in ("bar", "bar=")):
                bad.append(("last-event-differs", f"order {k}: last event {info_tuple(got[-1].order)[1:8]} vs info "
                            f"{info_tuple(info)[1:8]}"))
            for ev in got:
                if ev.when != w.now():
                    bad.append(("event-time", f"order {k}: event stamped {ev.when} at step {w.t}"))
        one = call(w.e.get_order_info(oid))
        if info_tuple(one) != info_tuple(info):
            bad.append(("listing-info", f"get_order_info differs from get_orders for order {k}"))
    for oid in new_by_order:
        if oid not in known:
            bad.append(("event-unknown-order", "event for an order that was never returned by create_*"))
    is_open = [oid for oid in w.ids if oid in tr.after.orders and tr.after.orders[oid].is_open]
    if sorted(tr.after.open_ids) != sorted(is_open):
        bad.append(("listing-open", f"get_open_orders() lists {len(tr.after.open_ids)} orders, {len(is_open)} are open"))
    if sorted(tr.after.closed_ids) != sorted(oid for oid in w.ids if oid in tr.after.orders and not tr.after.orders[oid].is_open):
        bad.append(("listing-closed", "get_orders(is_open=False) does not match the closed orders"))
    for pi in range(w.npairs):
        expp = sorted(oid for k, oid in enumerate(w.ids) if w.meta[k]["pair"] == pi and oid in is_open)
        if sorted(tr.after.open_by_pair[pi]) != expp:
            bad.append(("listing-pair", f"get_open_orders(pair {pi}) lists {len(tr.after.open_by_pair[pi])}, expected {len(expp)}"))
    # every filter combination of get_orders() returns exactly the matching orders, each equal to get_orders()'s entry
    if tr.after.filtered is not None:
        allinfo = {oid: info_tuple(o) for oid, o in tr.after.orders.items()}
        pair_of = {oid: w.meta[k]["pair"] for k, oid in enumerate(w.ids)}
        for (pi, flag), got_list in tr.after.filtered.items():
            expf = sorted(t for oid, t in allinfo.items() if (pi is None or pair_of.get(oid) == pi)
                          and (flag is None or t[1] == flag))
            if sorted(got_list) != expf:
                bad.append(("listing-filter", f"get_orders(pair={pi}, is_open={flag}) returned {len(got_list)} orders, "
                            f"{len(expf)} match"))
        # entries of get_open_orders(): the order's own operation, amount and filled amount
        for oo in tr.after.open_entries:
            info = tr.after.orders.get(oo.id)
            if info is not None and (oo.operation, oo.amount, oo.amount_filled) != (info.operation, info.amount, info.amount_filled):
                bad.append(("open-order-entry", f"get_open_orders() reports {oo.operation} {oo.amount_filled}/{oo.amount} for an "
                            f"order whose info says {info.operation} {info.amount_filled}/{info.amount}"))
    # per-order event streams are time ordered
    last = {}
    for ev in w.evq:
        if ev.order.id in last and ev.when < last[ev.order.id]:
            bad.append(("event-order", "events of one order not in time order"))
        last[ev.order.id] = ev.when
    if tr.a[0] == "cancel" and not tr.raised:
        pass
    if tr.a[0] == "cancel" and tr.a[1] >= 0 and tr.a[1] < len(w.ids):
        pb = tr.before.orders.get(w.ids[tr.a[1]])
        if pb is not None and not pb.is_open and not tr.raised:
            bad.append(("cancel-closed-succeeded", f"cancelling closed order {tr.a[1]} did not fail"))
    if tr.a[0] == "cancel" and tr.a[1] == -1 and not tr.raised:
        bad.append(("cancel-unknown-succeeded", "cancelling an unknown order did not fail"))
    return bad


# ---- C06 -----------------------------------------------------------------------------------------------------------
def reservation(cfg, m):
    """What an accepted order reserves, from the property's statement (independent of the implementation)."""
    price = {"mkt": m["close_at_accept"], "lim": m["lim"], "stp": m["stp"], "sl": m["lim"]}[m["kind"]]
    p = PAIRS[m["pair"]]
    res = {}
    amt = m["amt"]
    qp = pair_qp(cfg, m["pair"])
    if price is None or q(amt * price, qp) == 0:
        if m["side"] == "S":
            res[p.base_symbol] = amt
        return res
    cost = q(amt * price, qp)
    fee = ZERO
    if cfg.get("fee") is not None:
        fee = q(max(cost * D(str(cfg["fee"][0])) / 100, D(str(cfg["fee"][1]))), qp, ROUND_UP)
    if m["side"] == "B":
        res[p.quote_symbol] = cost + fee
    else:
        res[p.base_symbol] = amt
        if fee > cost:
            res[p.quote_symbol] = fee - cost
    return res


def remaining_reservations(w, infos, upto=None):
    """Reservation table: reserve at acceptance, subtract min(spent, remaining) per fill (from the order events), zero at
    closure. upto: only the first `upto` order events are considered (the table as it was at that point)."""
    cfg = w.cfg
    events = collections.defaultdict(list)
    for ev in (w.evq if upto is None else w.evq[:upto]):
        events[ev.order.id].append(ev.order)
    table = {}
    for k, oid in enumerate(w.ids):
        info = infos.get(oid)
        if info is None or not info.is_open:
            continue
        m = w.meta[k]
        p = PAIRS[m["pair"]]
        res = dict(reservation(cfg, m))
        prev = (ZERO, ZERO, ZERO)
        for o in events.get(oid, []):
            cur = (o.amount_filled, o.quote_amount_filled, sum(o.fees.values(), ZERO))
            db, dq, df = (c - pv for c, pv in zip(cur, prev))
            prev = cur
            if db == 0 and dq == 0 and df == 0:
                continue
            if m["side"] == "B":
                spent = {p.quote_symbol: dq + df}
            else:
                spent = {p.base_symbol: db}
                if df > dq:
                    spent[p.quote_symbol] = df - dq
            for s, v in spent.items():
                if v > 0 and res.get(s, ZERO) > 0:
                    res[s] -= min(v, res[s])
        table[oid] = res
    return table


def valid_request(cfg, a):
    _, kind, side, pi, amt, lim, stp, ab, ar = a
    bp, qp = pair_prec(cfg, pi)
    if D(amt) <= 0 or not on_grid(D(amt), bp):
        return False
    for p_ in (lim, stp):
        if p_ is not None and (D(p_) <= 0 or not on_grid(D(p_), qp)):
            return False
    return True


def m_holds(tr):
    bad = crashes(tr, ("bar", "cancel"))
    w = tr.w
    # acceptance: without borrowing a valid request is accepted exactly when the available funds cover its reservation,
    # under every lending strategy and price path
    if tr.a[0] == "ord" and not tr.a[7] and w.t > 0 and not (tr.raised and tr.raised[0] == "crash"):
        a = tr.a
        if valid_request(tr.cfg, a):
            m = dict(kind=a[1], side=a[2], pair=a[3], amt=D(a[4]), lim=None if a[5] is None else D(a[5]),
                     stp=None if a[6] is None else D(a[6]), close_at_accept=tr.before.close.get(a[3]))
            R = reservation(tr.cfg, m)
            covered = all(tr.before.bal.get(s, (ZERO,))[0] >= v for s, v in R.items())
            if covered and tr.raised:
                bad.append(("covered-request-rejected", f"request {a[1:7]} rejected ({tr.raised[1]}: {tr.raised[2]}) although the "
                            f"available funds cover its reservation {R}"))
            if not covered and not tr.raised:
                bad.append(("uncovered-request-accepted", f"request {a[1:7]} accepted although the available funds do not cover its "
                            f"reservation {R}"))
        elif not tr.raised:
            bad.append(("invalid-request-accepted", f"invalid request {a[1:7]} accepted"))
    table = remaining_reservations(w, tr.after.orders)
    exp = collections.defaultdict(lambda: ZERO)
    listed = set(tr.after.open_ids)
    for oid, res in table.items():
        for s, v in res.items():
            exp[s] += v
        if oid not in listed and any(res.values()):
            # funds may only be on hold on behalf of orders the exchange itself lists as open
            bad.append(("hold-for-unlisted-order", f"{res} is reserved for an order that get_open_orders() does not list"))
    for s in set(exp) | set(tr.after.bal):
        hold = tr.after.bal.get(s, (ZERO, ZERO, ZERO, ZERO))[1]
        if hold != exp[s]:
            n_open = len(table)
            clause = "hold-without-open-order" if n_open == 0 else "hold-vs-reservations"
            bad.append((clause, f"{s}: {hold} on hold, open orders' reservations sum to {exp[s]} ({n_open} open orders)"))
        av = tr.after.bal.get(s, (ZERO, ZERO, ZERO, ZERO))[0]
        if av < 0:
            bad.append(("hold-exceeds-balance", f"{s}: available {av} < 0, i.e. hold exceeds balance"))
    return bad


# ---- C07 -----------------------------------------------------------------------------------------------------------
def m_rejected(tr):
    bad = crashes(tr, ("ord", "cancel", "loan", "repay"))
    if not tr.raised or tr.a[0] in ("bar", "bar="):
        return bad
    b, a = tr.before, tr.after
    zero = (ZERO, ZERO, ZERO, ZERO)
    # a symbol with all-zero amounts and a symbol that is not listed are the same balances
    if {s: v for s, v in b.bal.items() if v != zero} != {s: v for s, v in a.bal.items() if v != zero}:
        diff = {s: (b.bal.get(s), a.bal.get(s)) for s in set(b.bal) | set(a.bal) if b.bal.get(s, zero) != a.bal.get(s, zero)}
        bad.append(("balances-changed", f"failed {tr.a[0]} ({tr.raised[1]}: {tr.raised[2]}) changed balances {diff}"))
    if {k: info_tuple(v) for k, v in b.orders.items()} != {k: info_tuple(v) for k, v in a.orders.items()}:
        bad.append(("orders-changed", f"failed {tr.a[0]} ({tr.raised[1]}: {tr.raised[2]}) changed an order / left one behind"))
    if sorted(b.open_ids) != sorted(a.open_ids):
        bad.append(("open-orders-changed", f"failed {tr.a[0]} changed the set of open orders"))
    open_b = sorted(loan_tuple(lo) for lo in b.loans.values() if lo.is_open)
    open_a = sorted(loan_tuple(lo) for lo in a.loans.values() if lo.is_open)
    if open_b != open_a:
        bad.append(("open-loans-changed", f"failed {tr.a[0]} ({tr.raised[1]}) changed the set of open loans"))
    if tr.events:
        bad.append(("events-pushed", f"failed {tr.a[0]} pushed {len(tr.events)} order events"))
    return bad


# ---- C08 -----------------------------------------------------------------------------------------------------------
def m_liquidity_precision(tr):
    bad = crashes(tr, ("bar",))
    w, cfg = tr.w, tr.cfg
    pair_of = {oid: w.meta[k]["pair"] for k, oid in enumerate(w.ids)}
    for oid, o in tr.after.orders.items():
        pb = tr.before.orders.get(oid)
        b0, q0, f0 = (pb.amount_filled, pb.quote_amount_filled, pb.fees) if pb else (ZERO, ZERO, {})
        if oid not in pair_of:
            continue
        bp, qp = pair_prec(cfg, pair_of[oid])  # each fill is on the grid of ITS pair
        if not on_grid(o.amount_filled - b0, bp):
            bad.append(("base-off-grid", f"base fill {o.amount_filled - b0} not a multiple of 1e-{bp}"))
        if not on_grid(o.quote_amount_filled - q0, qp):
            bad.append(("quote-off-grid", f"quote fill {o.quote_amount_filled - q0} not a multiple of 1e-{qp}"))
        for s, f in o.fees.items():
            # a fee charged in the pair's base symbol lives on the base grid
            fprec = bp if s == PAIRS[pair_of[oid]].base_symbol else qp
            if not on_grid(f - f0.get(s, ZERO), fprec):
                bad.append(("fee-off-grid", f"fee {f - f0.get(s, ZERO)} {s} off the grid"))
    # the no-dust clause is about accounts whose initial balances and loan amounts are on the precision grid
    on_grid_account = all(on_grid(D(str(a_)), grid_prec(cfg, s_)) for s_, a_ in cfg["init"]) and \
        all(on_grid(lo.borrowed_amount, grid_prec(cfg, lo.borrowed_symbol)) for lo in tr.after.loans.values())
    for s, (av, hold, bor, total) in tr.after.bal.items():
        for name, v in (("available", av), ("hold", hold), ("borrowed", bor)):
            if on_grid_account and not on_grid(v, grid_prec(cfg, s)):
                bad.append(("balance-dust", f"{s} {name}={v} is not a multiple of 1e-{grid_prec(cfg, s)}"))
    if tr.a[0] in ("bar", "bar=") and not tr.raised:
        _, pi, si = tr.a
        bp, qp = pair_prec(cfg, pi)
        volume = D(SHAPES[si][4]) * D(1).scaleb(-cfg["bp"])
        # infinite liquidity does not depend on the bar's volume
        budget = volume * D(str(cfg["liq"][0])) / 100 if cfg.get("liq") is not None else D("Infinity")
        o_, h_, l_, c_ = (D(x) for x in SHAPES[si][:4])
        p = PAIRS[pi]
        used = ZERO
        # state of the account when each order's turn comes, reconstructed from public information (no lending: closing
        # an order has no side effect but the release of its own hold)
        sequential = not cfg.get("lend") and not (cfg.get("fee") and cfg["fee"][0] == "base")
        table = remaining_reservations(w, tr.before.orders, upto=tr.before.nevents) if sequential else {}
        bal = {s_: b[0] + b[1] for s_, b in tr.before.bal.items()}
        hold = {s_: b[1] for s_, b in tr.before.bal.items()}
        for k, oid in enumerate(w.ids):  # turn order = acceptance order
            pb = tr.before.orders.get(oid)
            info = tr.after.orders.get(oid)
            m = w.meta[k]
            if pb is None or info is None or not pb.is_open or m["pair"] != pi:
                continue
            db = info.amount_filled - pb.amount_filled
            dq = info.quote_amount_filled - pb.quote_amount_filled
            df = sum(info.fees.values(), ZERO) - sum(pb.fees.values(), ZERO)
            if m["kind"] in ("mkt", "stp"):
                remaining = m["amt"] - pb.amount_filled
                fits = remaining <= budget - used
                if not fits and db > 0:
                    bad.append(("fill-beyond-liquidity", f"{m['kind']} order {k} of {m['amt']} filled with only "
                                f"{budget - used} left in the bar"))
                triggered = m["kind"] == "mkt" or (m["side"] == "B" and h_ >= m["stp"]) or (m["side"] == "S" and l_ <= m["stp"])
                if fits and triggered and db == 0 and sequential and remaining > 0:
                    own = table.get(oid, {})
                    if m["side"] == "B":
                        cost = q(remaining * h_, qp, ROUND_UP)  # upper bound of the cost: the bar's high
                        fee = ZERO
                        if cfg.get("fee") is not None:
                            fee = q(max(cost * D(str(cfg["fee"][0])) / 100, D(str(cfg["fee"][1]))), qp, ROUND_UP)
                        qs = p.quote_symbol
                        spend = cost + fee
                        after_bal = bal.get(qs, ZERO) - spend
                        after_hold = hold.get(qs, ZERO) - min(spend, own.get(qs, ZERO))
                        affordable = after_bal >= 0 and after_hold <= after_bal
                    else:
                        bs_ = p.base_symbol
                        after_bal = bal.get(bs_, ZERO) - remaining
                        after_hold = hold.get(bs_, ZERO) - min(remaining, own.get(bs_, ZERO))
                        proceeds = q(remaining * l_, qp)
                        fee = ZERO
                        if cfg.get("fee") is not None:
                            fee = q(max(proceeds * D(str(cfg["fee"][0])) / 100, D(str(cfg["fee"][1]))), qp, ROUND_UP)
                        affordable = after_bal >= 0 and after_hold <= after_bal and proceeds > 0 and (
                            fee <= proceeds or bal.get(p.quote_symbol, ZERO) - hold.get(p.quote_symbol, ZERO)
                            + own.get(p.quote_symbol, ZERO) >= fee - proceeds)
                    if affordable:
                        bad.append(("fit-but-not-filled", f"{m['kind']} order {k} of {remaining} was not filled although "
                                    f"{budget - used} of the bar's liquidity was left and funds sufficed"))
            used += db
            if sequential:
                sign = 1 if m["side"] == "B" else -1
                bal[p.base_symbol] = bal.get(p.base_symbol, ZERO) + sign * db
                bal[p.quote_symbol] = bal.get(p.quote_symbol, ZERO) - sign * dq - df
                own = table.get(oid, {})
                if not info.is_open:
                    for s_, v in own.items():
                        hold[s_] = hold.get(s_, ZERO) - v
                elif db > 0:
                    spent = {p.quote_symbol: dq + df} if m["side"] == "B" else {p.base_symbol: db}
                    if m["side"] == "S" and df > dq:
                        spent[p.quote_symbol] = df - dq
                    for s_, v in spent.items():
                        if v > 0 and own.get(s_, ZERO) > 0:
                            hold[s_] = hold.get(s_, ZERO) - min(v, own[s_])
        if used > budget:
            bad.append(("liquidity-exceeded", f"{used} filled in a bar whose liquidity is {budget} "
                        f"({cfg['liq'][0]}% of {volume})"))
    return bad


# ---- C10 -----------------------------------------------------------------------------------------------------------
def prices_of(w):
    pr = {"USD": D(1)}
    for pi, c in w.close.items():
        if PAIRS[pi].quote_symbol == "USD":  # cross pairs do not give a USD price
            pr[PAIRS[pi].base_symbol] = c
    return pr


def m_margin(tr):
    bad = crashes(tr, ("loan", "ord"))
    w, cfg = tr.w, tr.cfg
    granted = [lid for lid in tr.new_loans if tr.after.loans.get(lid) is not None and tr.after.loans[lid].is_open]
    if not cfg.get("lend"):
        if tr.new_loans or (tr.a[0] == "loan" and not tr.raised):
            bad.append(("noloans-granted", "a loan was granted without a lending strategy"))
        return bad
    if granted:
        pr = prices_of(w)
        req = D(str(cfg["lend"]["req"]))
        by_symbol = {k: D(str(v)) for k, v in (cfg["lend"].get("req_by_symbol") or {}).items()}

        def req_of(sym):
            return by_symbol.get(sym, req)
        unpriced = sorted(s for s, b in tr.after.bal.items() if b[2] and s not in pr and req_of(s) > 0)
        if unpriced:
            bad.append(("loan-without-price", f"loan granted while {unpriced} is borrowed and has no last price: the requirement "
                        f"cannot be valued"))
        if all(s in pr for s, b in tr.after.bal.items() if (b[2] and req_of(s) > 0) or b[3] > 0):
            equity = sum((max(b[3], ZERO) * pr[s] for s, b in tr.after.bal.items() if s in pr), ZERO)
            need = sum((req_of(s) * b[2] * pr[s] for s, b in tr.after.bal.items() if s in pr and req_of(s) > 0), ZERO)
            if equity < need:
                via = w.loan_meta[granted[0]]["via"]
                bad.append(("loan-below-requirement", f"{via} loan granted with equity {equity} < requirement {need} "
                            f"({req} x borrowed value)"))
    return bad


# ---- C11 -----------------------------------------------------------------------------------------------------------
def expected_interest(w, lid, lo):
    cfg = w.cfg
    lend = cfg["lend"]
    isym = lend.get("isym", "USD")
    if isym == "same":
        isym = lo.borrowed_symbol
    pct = F(str(lend.get("pct", 10)))
    interest = pct / 100 * F(lo.borrowed_amount)
    period = lend.get("period", 10)
    if lend.get("period_us"):
        step_us = cfg.get("step_us") or 86400 * 10 ** 6
        interest *= F((w.t - w.loan_meta[lid]["t"]) * step_us, lend["period_us"])
    elif period:
        interest *= F(w.t - w.loan_meta[lid]["t"], period)
    if isym != lo.borrowed_symbol:
        pr = prices_of(w)
        if lo.borrowed_symbol not in pr or isym not in pr:
            return None, isym
        interest = interest * F(pr[lo.borrowed_symbol]) / F(pr[isym])
    interest = max(interest, F(str(lend.get("minint", 0))))
    prec = sym_prec(cfg, isym)
    scaled = interest * 10 ** prec
    trunc = D(scaled.numerator // scaled.denominator).scaleb(-prec)
    return trunc, isym


def m_loans(tr):
    bad = crashes(tr, ("loan", "repay", "bar", "cancel"))
    w, cfg = tr.w, tr.cfg
    if not cfg.get("lend"):
        return bad
    for lid, lo in tr.after.loans.items():
        pl = tr.before.loans.get(lid)
        if pl is not None and not pl.is_open and loan_tuple(lo) != loan_tuple(pl):
            bad.append(("closed-loan-changed", f"{loan_tuple(pl)[1:]} -> {loan_tuple(lo)[1:]}"))
        if lo.is_open:
            exp, isym = expected_interest(w, lid, lo)
            if exp is not None:
                got = lo.outstanding_interest.get(isym, ZERO)
                if any(v < 0 for v in lo.outstanding_interest.values()):
                    bad.append(("negative-interest", f"{lo.outstanding_interest}"))
                if got != exp or any(s != isym and v for s, v in lo.outstanding_interest.items()):
                    bad.append(("interest-amount", f"loan of {lo.borrowed_amount} {lo.borrowed_symbol} aged "
                                f"{w.t - w.loan_meta[lid]['t']} steps: outstanding {dict(lo.outstanding_interest)}, "
                                f"expected {exp} {isym}"))
        else:
            if lo.outstanding_interest:
                bad.append(("closed-loan-accrues", f"closed loan reports outstanding interest {lo.outstanding_interest}"))
        if pl is not None and pl.is_open and not lo.is_open:
            # who closed it?
            explicit = tr.a[0] == "repay" and not tr.raised and 0 <= tr.a[1] < len(w.lids) and w.lids[tr.a[1]] == lid
            auto = False
            if tr.a[0] in ("bar", "bar=", "cancel"):
                for k, oid in enumerate(w.ids):
                    ob, oa = tr.before.orders.get(oid), tr.after.orders.get(oid)
                    if ob is not None and ob.is_open and not oa.is_open and w.meta[k]["ar"] and oa.amount_filled > 0:
                        p = PAIRS[w.meta[k]["pair"]]
                        credit = p.base_symbol if w.meta[k]["side"] == "B" else p.quote_symbol
                        if credit == lo.borrowed_symbol:
                            auto = True
            if not (explicit or auto):
                bad.append(("loan-closed-by", f"loan closed during {tr.a[0]} without an explicit repayment or an "
                            f"auto-repay order that traded"))
            # what was debited
            exp_b, isym = expected_interest_before(tr, lid, pl)
            if exp_b is not None:
                paid = lo.paid_interest.get(isym, ZERO)
                if paid != exp_b or any(s != isym and v for s, v in lo.paid_interest.items()):
                    bad.append(("paid-interest", f"paid {dict(lo.paid_interest)}, expected {exp_b} {isym}"))
        if pl is None and not lo.is_open and lid in tr.new_loans:
            # created and closed within one call: only the rollback of a rejected auto-borrow request
            if not (tr.a[0] == "ord" and tr.raised):
                bad.append(("loan-closed-by", f"loan created and closed during a successful {tr.a[0]}"))
            if lo.paid_interest and any(lo.paid_interest.values()):
                bad.append(("paid-interest", "a rolled back loan paid interest"))
    if tr.a[0] == "repay" and not tr.raised and 0 <= tr.a[1] < len(w.lids):
        lid = w.lids[tr.a[1]]
        pl, lo = tr.before.loans[lid], tr.after.loans[lid]
        if not pl.is_open:
            bad.append(("repay-closed-succeeded", "repaying a closed loan did not fail"))
        elif lo.is_open:
            bad.append(("repay-did-not-close", "repay_loan returned but the loan is still open"))
        else:
            exp_b, isym = expected_interest_before(tr, lid, pl)
            if exp_b is not None:
                delta = collections.defaultdict(lambda: ZERO)
                delta[pl.borrowed_symbol] -= pl.borrowed_amount
                delta[isym] -= exp_b
                for s in set(tr.after.bal) | set(tr.before.bal):
                    b0 = tr.before.bal.get(s, (ZERO, ZERO, ZERO, ZERO))
                    b1 = tr.after.bal.get(s, (ZERO, ZERO, ZERO, ZERO))
                    if (b1[0] + b1[1]) - (b0[0] + b0[1]) != delta[s]:
                        bad.append(("repay-debit", f"{s}: balance changed by {(b1[0] + b1[1]) - (b0[0] + b0[1])}, "
                                    f"expected {delta[s]} (principal {pl.borrowed_amount} {pl.borrowed_symbol} + "
                                    f"interest {exp_b} {isym})"))
    if tr.a[0] == "repay" and tr.a[1] == -1 and not tr.raised:
        bad.append(("repay-unknown-succeeded", "repaying an unknown loan did not fail"))
    # every way of reading loans tells the same story
    if tr.after.loan_reads is not None:
        alll = {lid: loan_tuple(lo) for lid, lo in tr.after.loans.items()}
        for lid, t in tr.after.loan_reads["single"].items():
            if t != alll[lid]:
                bad.append(("loan-listing", f"get_loan() says {t[1:]}, get_loans() says {alll[lid][1:]}"))
        for (sym, flag), got_list in tr.after.loan_reads["filtered"].items():
            expf = sorted(t for t in alll.values() if (sym is None or t[2] == sym) and (flag is None or t[1] == flag))
            if sorted(got_list) != expf:
                bad.append(("loan-listing", f"get_loans(borrowed_symbol={sym}, is_open={flag}) returned {len(got_list)} loans, "
                            f"{len(expf)} match"))
    # an auto-repay order that traded and closed WITHOUT repaying anything: then no open loan in the symbol it acquired can be
    # repayable right now (nothing changed since the attempt: decided by explicitly repaying on a rebuilt copy of this state)
    if tr.hist is not None and tr.a[0] in ("bar", "bar=", "cancel") and not (tr.raised and tr.raised[0] == "crash"):
        for k, oid in enumerate(w.ids):
            ob, oa = tr.before.orders.get(oid), tr.after.orders.get(oid)
            if ob is None or oa is None or not ob.is_open or oa.is_open or not w.meta[k]["ar"] or oa.amount_filled <= 0:
                continue
            if any(pl_.is_open and not tr.after.loans[lid_].is_open for lid_, pl_ in tr.before.loans.items()):
                continue  # something was repaid in this step: the clause "as far as funds allow" is decided differentially
            # ... and it must be the only order this step touched (orders matched later in the same bar move funds after
            # the attempt was made)
            if any(o2 != oid and (o2 not in tr.before.orders or info_tuple(tr.before.orders[o2]) != info_tuple(tr.after.orders[o2]))
                   for o2 in tr.after.orders):
                continue
            pr_ = PAIRS[w.meta[k]["pair"]]
            credit = pr_.base_symbol if w.meta[k]["side"] == "B" else pr_.quote_symbol
            cands = [lid for lid, lo in tr.after.loans.items() if lo.is_open and lo.borrowed_symbol == credit]
            # only loans that existed before the step (the closing order may itself have borrowed)
            cands = [lid for lid in cands if lid in tr.before.loans]
            for lid in cands:
                from worlds import exch as _exch
                w2 = _exch.build(cfg, tr.hist + [tr.a])
                try:
                    call(w2.e.repay_loan(lid))
                except Exception:
                    continue
                bad.append(("auto-repay-skipped", f"{w.meta[k]['kind']} order {k} with auto_repay traded "
                            f"({oa.amount_filled}) and closed during {tr.a[0]} without repaying anything, although the open "
                            f"loan of {tr.after.loans[lid].borrowed_amount} {credit} can be repaid at that very moment"))
                break
    return bad


def expected_interest_before(tr, lid, pl):
    # interest is evaluated at the time of the closing call, i.e. with the clock and prices after the action's bar
    return expected_interest(tr.w, lid, pl)


MONITORS = {
    "C01": [m_ledger],
    "C02": [m_solvency],
    "C05": [m_lifecycle],
    "C06": [m_holds],
    "C07": [m_rejected],
    "C08": [m_liquidity_precision],
    "C10": [m_margin],
    "C11": [m_loans],
}

"""Backtesting-exchange world: the real Exchange driven through a synchronous driver (DESIGN.md 2.3, 2.4, 3).

A *history* is a list of actions; the state reached by a history is obtained by building a fresh real Exchange and
replaying the history (live objects cannot be copied). Actions (JSON-able tuples):

  ("bar", pair_index, shape_index)                      advance the clock one step and deliver a bar of that pair
  ("ord", kind, side, pair_index, amount, limit, stop, auto_borrow, auto_repay)   kind in mkt/lim/stp/sl, side B/S
  ("cancel", i)    cancel the i-th order ever created (open or closed); i = -1: unknown id
  ("loan", symbol, amount)
  ("repay", i)     repay the i-th loan ever created *explicitly*; i = -1: unknown id

amounts / prices are strings (exact decimals).
"""
import datetime
from decimal import Decimal as D

import basana as bs
from basana.backtesting import exchange as ex, fees, lending, liquidity, errors
from basana.core import errors as core_errors

DAY = datetime.timedelta(days=1)
EPOCH = datetime.datetime(2020, 1, 1, tzinfo=datetime.timezone.utc)
PAIRS = [bs.Pair("BTC", "USD"), bs.Pair("ETH", "USD"), bs.Pair("ETH", "BTC")]  # the third one is a cross pair
B, S = bs.OrderOperation.BUY, bs.OrderOperation.SELL
SIDE = {"B": B, "S": S}

# bar shapes: (open, high, low, close, volume)
SHAPES = [
    ("100", "100", "100", "100", "10"),     # 0 flat, thin (25% of 10 = 2.5: not a multiple of base precision 0)
    ("100", "110", "90", "100", "40"),      # 1 wide range
    ("90", "90", "90", "90", "10"),         # 2 gap down
    ("110", "110", "110", "110", "40"),     # 3 gap up
    ("100", "100", "100", "100", "0"),      # 4 no volume
    ("300", "300", "300", "300", "40"),     # 5 price jump (margin level crosses 100%)
    ("30", "30", "30", "30", "40"),         # 6 price collapse
    ("100", "110", "90", "110", "100000"),  # 7 ample volume
    ("90", "100", "90", "100", "41.7"),     # 8 awkward volume
    ("100", "100", "100", "100", "11"),     # 9 25% -> 2.75, 33% -> 3.63: rounding instead of truncating would overshoot
    ("100", "100", "100", "100", "4"),      # 10 one unit of liquidity per bar at 25%: orders fill in many pieces
    ("90", "90", "90", "90", "11"),         # 11 fractional liquidity at a price whose products need rounding at qp=0
    ("33.37", "33.37", "33.37", "33.37", "11"),  # 12 awkward price
    ("300", "300", "300", "300", "16"),     # 13 gap up on a thin bar: 4 units of liquidity at 25%, orders short of funds
    ("300", "300", "300", "300", "0"),      # 14 price spike without volume: open orders stay as they are
    ("30", "30", "30", "30", "0"),          # 15 price collapse without volume
    ("100", "100", "100", "100", "300"),    # 16 three units of liquidity at a volume limit of 1%
    ("100", "110", "90", "100", "250"),     # 17 2.5 units at 1%
    ("100", "100", "100", "100", "1000"),   # 18 ten units at 1%
    ("33.37", "33.37", "33.37", "33.37", "100000"),  # 19 awkward price, ample volume
]


STEP = DAY  # length of one history step; World() sets it from cfg["step_us"] (sub-second steps exercise time resolution)


def set_step(cfg):
    global STEP
    STEP = datetime.timedelta(microseconds=cfg["step_us"]) if cfg.get("step_us") else DAY


def T(k):
    return EPOCH + k * STEP


class _DeterministicIds:
    """Replaces uuid4 in the exchange modules: ids are creation serials, so replaying a history gives the same ids
    (snapshots of a common prefix can be shared, replay files are stable). Order/loan ids are opaque to the code."""

    class _U:
        def __init__(self, n):
            self.hex = "%032x" % n

    def __init__(self):
        self.n = 0
        self.scheme = "asc"  # asc: ids grow with creation; desc: ids shrink; mix: alternate ends (id ORDER must not matter)

    def reset(self):
        self.n = 0

    def uuid4(self):
        self.n += 1
        if self.scheme == "asc":
            return self._U(self.n)
        if self.scheme == "desc":
            return self._U(10 ** 9 - self.n)
        return self._U(self.n if self.n % 2 else 10 ** 9 - self.n)


_ids = _DeterministicIds()


def install_deterministic_ids():
    from basana.backtesting import exchange as _ex
    from basana.backtesting.lending import margin as _margin
    _ex.uuid = _ids
    _margin.uuid = _ids


def install_random_ids():
    """The library's own uuid4 ids (used where independence from the random ids is the very thing being checked)."""
    import uuid as _uuid
    from basana.backtesting import exchange as _ex
    from basana.backtesting.lending import margin as _margin
    _ex.uuid = _uuid
    _margin.uuid = _uuid


class DriverLimit(Exception):
    """The synchronous driver met something it cannot drive (an API coroutine waiting for a future): a limitation of the
    harness (exit 2), never a verdict about the library."""


def call(coro):
    """Drives an Exchange API coroutine to completion without an event loop. The API methods never suspend; a bare yield
    (asyncio.sleep(0)) is resumed at once, which is what a loop with nothing else to run would do."""
    try:
        for _ in range(1000):
            y = coro.send(None)
            if y is not None:
                break
    except StopIteration as e:
        return e.value
    coro.close()
    raise DriverLimit("exchange API coroutine waits for a future: the synchronous driver cannot run it")


async def _noop(ev):
    pass


class BaseSymbolFee(fees.FeeStrategy):
    """A fee scheme of the user's own (FeeStrategy is a public extension point): buys pay a percentage of what they receive,
    in the BASE symbol."""

    def __init__(self, pct):
        self.pct = pct

    def calculate_fees(self, order, balance_updates):
        amount = balance_updates.get(order.pair.base_symbol, D(0))
        if amount <= 0:
            return {}
        return {order.pair.base_symbol: -(amount * self.pct / D(100))}


def sym_prec(cfg, s):
    """Precision configured for a symbol (set_symbol_precision)."""
    over = cfg.get("sym_prec") or {}
    if s in over:
        return over[s]
    return cfg["qp"] if s == "USD" else cfg["bp"]


def pair_prec(cfg, pi):
    """(base precision, quote precision) the exchange uses for a pair: explicit pair info, else derived from the symbols'
    precisions, else the default pair info."""
    over = cfg.get("pair_prec") or {}
    if pi in over:
        return tuple(over[pi])
    p = PAIRS[pi]
    if cfg.get("no_pair_info"):
        return (sym_prec(cfg, p.base_symbol), sym_prec(cfg, p.quote_symbol))
    if cfg.get("dpi"):
        return (cfg["bp"], cfg["qp"])
    return (cfg["bp"], cfg["qp"] if p.quote_symbol == "USD" else cfg["bp"])


def make_exchange(cfg, dispatcher):
    kw = {}
    set_step(cfg)
    lend = cfg.get("lend")
    if lend:
        period = lend.get("period", 10)

        def cond(isym, req=None):
            return lending.MarginLoanConditions(
                interest_symbol=isym, interest_percentage=D(str(lend.get("pct", 10))),
                interest_period=(datetime.timedelta(microseconds=lend["period_us"]) if lend.get("period_us")
                                 else period * STEP),  # period_us: a period that is not a whole number of steps
                min_interest=D(str(lend.get("minint", 0))),
                margin_requirement=D(str(lend["req"] if req is None else req)))
        isym = lend.get("isym", "USD")
        quote = lend.get("quote", "USD")  # the symbol the margin account is valued in
        if isym == "same":
            # lend["default"]: default conditions exist NEXT TO the per-symbol ones (which must win)
            dflt = lend.get("default")
            ls = lending.MarginLoans(quote, default_conditions=None if dflt is None else lending.MarginLoanConditions(
                interest_symbol="USD", interest_percentage=D(str(dflt["pct"])), interest_period=period * STEP,
                min_interest=D(str(dflt.get("minint", 0))), margin_requirement=D(str(dflt["req"]))))
            for s in ("USD", "BTC", "ETH"):
                ls.set_conditions(s, cond(s))
        else:
            ls = lending.MarginLoans(quote, default_conditions=cond(isym))
        # per-symbol margin requirements (e.g. a symbol that needs no collateral next to symbols that do)
        for sym, req in (lend.get("req_by_symbol") or {}).items():
            ls.set_conditions(sym, cond(sym if isym == "same" else isym, req))
        kw["lending_strategy"] = ls
    fee = cfg.get("fee")
    if fee is not None and fee[0] == "base":
        fee_strategy = BaseSymbolFee(D(str(fee[1])))
    else:
        fee_strategy = fees.NoFee() if fee is None else fees.Percentage(D(str(fee[0])), D(str(fee[1])))
    liq = cfg.get("liq")
    if liq is None:
        liq_factory = liquidity.InfiniteLiquidity
    else:
        def liq_factory():
            return liquidity.VolumeShareImpact(D(str(liq[0])), D(str(liq[1])))
    if cfg.get("dpi"):
        # precision configured through default_pair_info only (no lending: nothing ever asks for a symbol's precision)
        assert not lend
        kw["default_pair_info"] = bs.PairInfo(cfg["bp"], cfg["qp"])
    e = ex.Exchange(dispatcher, {s: D(str(a)) for s, a in cfg["init"]}, fee_strategy=fee_strategy,
                    liquidity_strategy_factory=liq_factory, **kw)
    if cfg.get("dpi"):
        return e
    for pi, p in enumerate(PAIRS[:cfg.get("pairs", 1)]):
        e.set_symbol_precision(p.base_symbol, sym_prec(cfg, p.base_symbol))
        if not cfg.get("no_pair_info"):  # otherwise the pair's precisions are derived from its symbols' precisions
            e.set_pair_info(p, bs.PairInfo(*pair_prec(cfg, pi)))
    e.set_symbol_precision("USD", sym_prec(cfg, "USD"))
    if lend and lend.get("isym") and lend["isym"] not in ("USD", "BTC", "ETH", "same"):
        raise ValueError("interest symbol must be priced")
    return e


def unit(cfg):
    return D(1).scaleb(-cfg["bp"])


class Snapshot:
    __slots__ = ("bal", "orders", "loans", "open_ids", "open_by_pair", "closed_ids", "nevents", "close", "open_entries",
                 "filtered", "single_bal", "loan_reads")


# Which extra read-only API calls a snapshot makes (set per property by checks/_exch_common.py): "orders": every
# get_orders(pair, is_open) filter combination and the fields of get_open_orders() entries; "balances": get_balance(symbol);
# "loans": get_loan(id) and every get_loans(borrowed_symbol, is_open) combination. None of them walks the open-order list more
# often than the plain snapshot does (the re-index phase of a state does not depend on this setting).
DEEP_READS = set()


class World:
    """A real Exchange plus the bookkeeping the monitors need (order/loan meta data keyed by creation index)."""

    def __init__(self, cfg):
        self.cfg = cfg
        self.d = bs.backtesting_dispatcher()
        self.e = make_exchange(cfg, self.d)
        self.npairs = cfg.get("pairs", 1)
        self.e.add_bar_source(bs.FifoQueueEventSource())
        self.e.subscribe_to_order_events(_noop)
        self.evq = self.e._order_mgr._order_updates._queue
        self.t = 0
        self.ids = []           # order ids in creation order
        self.meta = []          # per order: dict(kind, side, pair, amt, lim, stp, ab, ar, t, close_at_accept)
        self.lids = []          # ids of loans created explicitly (repay(i) refers to these)
        self.loan_meta = {}     # loan id -> dict(t, symbol, amount, via)
        self.close = {}         # pair index -> last close
        self.bars = []          # (t, pair, shape)
        self.bars_since = []    # per order: number of bars of its pair since acceptance
        self.cancelled = set()  # indices of orders whose cancellation succeeded
        self.last_kind = None
        self.results = []       # per action: None or the class name of what it raised
        self.harness_traversals = 0  # walks of the open-order list caused by the harness's own snapshots
        _ids.reset()

    # ---- observation through the public API
    def snapshot(self):
        e = self.e
        s = Snapshot()
        s.bal = {k: (v.available, v.hold, v.borrowed, v.total) for k, v in call(e.get_balances()).items()}
        s.orders = {o.id: o for o in call(e.get_orders())}
        s.loans = {lo.id: lo for lo in call(e.get_loans())}
        self.harness_traversals = getattr(self, "harness_traversals", 0) + 1 + self.npairs
        s.open_entries = list(call(e.get_open_orders()))
        s.open_ids = [o.id for o in s.open_entries]
        by_pair = [list(call(e.get_open_orders(pair=p))) for p in PAIRS[:self.npairs]]
        s.open_by_pair = [[o.id for o in lst] for lst in by_pair]
        s.closed_ids = [o.id for o in call(e.get_orders(is_open=False))]
        s.nevents = len(self.evq)
        s.close = dict(self.close)
        s.filtered = s.single_bal = s.loan_reads = None
        if "orders" in DEEP_READS:
            for lst in by_pair:
                s.open_entries.extend(lst)
            s.filtered = {}
            for pi in [None] + list(range(self.npairs)):
                for flag in (None, True, False):
                    if pi is None and flag is not True:
                        continue  # get_orders() and get_orders(is_open=False) are read above
                    kw = {} if pi is None else dict(pair=PAIRS[pi])
                    if flag is not None:
                        kw["is_open"] = flag
                    s.filtered[(pi, flag)] = [info_key(o) for o in call(e.get_orders(**kw))]
        if "balances" in DEEP_READS:
            s.single_bal = {}
            for sym in sorted(set(s.bal) | {"USD", "BTC", "XRP"}):
                v = call(e.get_balance(sym))
                s.single_bal[sym] = (v.available, v.hold, v.borrowed, v.total)
        if "loans" in DEEP_READS:
            s.loan_reads = dict(single={}, filtered={})
            for lid in s.loans:
                s.loan_reads["single"][lid] = loan_key(call(e.get_loan(lid)))
            for sym in (None, "USD", "BTC", "ETH"):
                for flag in (None, True, False):
                    if sym is None and flag is None:
                        continue
                    kw = {} if sym is None else dict(borrowed_symbol=sym)
                    if flag is not None:
                        kw["is_open"] = flag
                    s.loan_reads["filtered"][(sym, flag)] = [loan_key(lo) for lo in call(e.get_loans(**kw))]
        return s

    def pre_read(self):
        """What a strategy that looks at its account before acting does: read-only calls, made on the state an action is
        about to be applied to. Read-only calls must not influence anything (e.g. through values cached per instant)."""
        call(self.e.get_balances())
        if self.cfg.get("lend"):
            call(self.e.get_loans())

    def now(self):
        """The simulated instant of the last thing that happened (a bar, or - with cfg["mid_actions"] - a job between bars)."""
        return T(self.t) + (STEP / 2 if getattr(self, "mid", False) else datetime.timedelta(0))

    def _act_time(self):
        # cfg["mid_actions"]: orders and cancellations are made by a job scheduled half a step after the last bar, i.e. at an
        # instant that is NOT the time of any bar (order events must be dated with the dispatcher's clock, whatever it is)
        if self.cfg.get("mid_actions") and self.t > 0:
            self.mid = True
            self.d._set_now(self.now())

    # ---- one action
    def apply(self, a):
        """Returns (raised, placed_index, new_loan_ids). raised: None, ('rejected', class name) or ('crash', ...)."""
        e, d, cfg = self.e, self.d, self.cfg
        raised = None
        placed = None
        loans_before = set(lo.id for lo in e._loan_mgr._loans.get_all())
        try:
            if a[0] in ("bar", "bar="):
                _, pi, si = a
                if a[0] == "bar":  # "bar=": another bar of the pair with the SAME timestamp (e.g. hourly and daily feeds)
                    self.t += 1
                    self.mid = False
                d._set_now(T(self.t))
                o, h, l, c, v = (D(x) for x in SHAPES[si])
                v = v * unit(cfg)  # volumes are expressed in units of the base precision
                self.bars.append((self.t, pi, si))
                for k, m in enumerate(self.meta):
                    if m["pair"] == pi:
                        self.bars_since[k] += 1
                # what a job scheduled for exactly this bar's time does (jobs run BEFORE the events of their time): it looks at
                # the account with the clock already at T, before the exchange has processed the bar stamped T
                call(e.get_balances())
                call(e.get_loans())
                try:
                    call(e._on_bar_event(bs.BarEvent(T(self.t), bs.Bar(T(self.t - 1), PAIRS[pi], o, h, l, c, v))))
                finally:
                    self.close[pi] = c
            elif a[0] == "ord":
                self._act_time()
                _, kind, side, pi, amt, lim, stp, ab, ar = a
                amt = D(amt)
                lim = None if lim is None else D(lim)
                stp = None if stp is None else D(stp)
                p = PAIRS[pi]
                op = SIDE[side]
                if kind == "mkt":
                    co = e.create_market_order(op, p, amt, auto_borrow=ab, auto_repay=ar)
                elif kind == "lim":
                    co = e.create_limit_order(op, p, amt, lim, auto_borrow=ab, auto_repay=ar)
                elif kind == "stp":
                    co = e.create_stop_order(op, p, amt, stp, auto_borrow=ab, auto_repay=ar)
                else:
                    co = e.create_stop_limit_order(op, p, amt, stp, lim, auto_borrow=ab, auto_repay=ar)
                oid = call(co).id
                placed = len(self.ids)
                self.ids.append(oid)
                self.meta.append(dict(kind=kind, side=side, pair=pi, amt=amt, lim=lim, stp=stp, ab=ab, ar=ar, t=self.t,
                                      close_at_accept=self.close.get(pi)))
                self.bars_since.append(0)
            elif a[0] == "cancel":
                self._act_time()
                oid = self.ids[a[1]] if 0 <= a[1] < len(self.ids) else "no-such-order"
                call(e.cancel_order(oid))
                self.cancelled.add(a[1])
            elif a[0] == "loan":
                li = call(e.create_loan(a[1], D(a[2])))
                self.lids.append(li.id)
            elif a[0] == "repay":
                lid = self.lids[a[1]] if 0 <= a[1] < len(self.lids) else "no-such-loan"
                call(e.repay_loan(lid))
            else:
                raise ValueError(a)
        except DriverLimit:
            raise
        except core_errors.Error as x:
            # (any deliberate basana error is a refusal: the backtesting errors derive from basana.core.errors.Error, which the
            # dispatcher itself raises e.g. when a request needs the current time before the first event)
            # a bar is not a request: nothing may be raised while the exchange processes it
            raised = ("crash" if a[0] in ("bar", "bar=") else "rejected", type(x).__name__, str(x)[:80])
        except Exception as x:  # noqa: an internal error (assertion, KeyError, decimal error...) is never acceptable
            raised = ("crash", type(x).__name__, str(x)[:80])
        self.results.append(None if raised is None else raised[1])
        self.last_kind = a[0]
        new_loans = []
        for lo in e._loan_mgr._loans.get_all():
            if lo.id not in loans_before:
                new_loans.append(lo.id)
                via = "explicit" if a[0] == "loan" else "auto-borrow"
                self.loan_meta[lo.id] = dict(t=self.t, symbol=lo.borrowed_symbol, amount=lo.borrowed_amount, via=via)
        return raised, placed, new_loans

    def applicable(self, a):
        """Strategy actions are issued from handlers, i.e. after at least one bar (so that now() exists); cancel/repay
        of an index that does not exist yet would only duplicate the 'unknown id' action."""
        if a[0] == "bar=" and (self.t == 0 or self.last_kind not in ("bar", "bar=") or getattr(self, "mid", False)):
            # bars sharing a timestamp are all processed before any strategy handler of that timestamp runs
            return False
        if a[0] not in ("bar", "bar=") and self.t == 0:
            # the documented exception: orders (not loans) may be placed before the first event; there is no "now" yet,
            # hence no acceptance event, and a market buy cannot estimate what to reserve
            if not (self.cfg.get("pre_bar") and a[0] in ("ord", "cancel")):
                return False
        if a[0] == "cancel" and a[1] >= len(self.ids):
            return False
        if a[0] == "repay" and a[1] >= len(self.lids):
            return False
        if a[0] in ("bar", "bar=", "ord") and a[3 if a[0] == "ord" else 1] >= self.npairs:
            return False
        if a[0] == "bar" and self.cfg.get("lend") and PAIRS[a[1]].quote_symbol != "USD":
            # precondition (DESIGN.md 5b): a margin account only gets fills on a cross pair once both of its symbols can
            # be valued in the margin account's currency (otherwise the margin level cannot be computed at all)
            if not all(any(PAIRS[pi].base_symbol == sym and PAIRS[pi].quote_symbol == "USD" for pi in self.close)
                       for sym in (PAIRS[a[1]].base_symbol, PAIRS[a[1]].quote_symbol)):
                return False
        return True

    # ---- canonical key of the live state (DESIGN.md 2.3)
    def key(self, ref_orders=3, ref_loans=2):
        e = self.e
        ab = e._balances
        syms = sorted(set(ab.balances) | set(ab.holds) | set(ab.borrowed))
        bal = tuple((s, ab.balances.get(s, D(0)), ab.holds.get(s, D(0)), ab.borrowed.get(s, D(0))) for s in syms
                    if ab.balances.get(s, D(0)) or ab.holds.get(s, D(0)) or ab.borrowed.get(s, D(0)))
        om = e._order_mgr

        def okey(k):
            o = om._orders.get(self.ids[k])
            if not o.is_open:
                return None
            m = self.meta[k]
            holds = om._holds_by_order.get(o.id, {})
            return (m["kind"], m["side"], m["pair"], m["amt"], o.amount_filled, o.quote_amount_filled,
                    tuple(sorted((s, v) for s, v in o.fees.items() if v)), m["lim"], m["stp"],
                    getattr(o, "_stop_price_hit", None), m["ab"], m["ar"],
                    tuple(sorted((s, v) for s, v in holds.items() if v)), len(o._loan_ids),
                    min(self.bars_since[k], 1))
        okeys = [okey(k) for k in range(len(self.ids))]
        # orders an action can address by creation index (cancel(0..2)) keep their index; the others keep their ACCEPTANCE
        # ORDER (never sorted: matching takes a bar's liquidity in acceptance order, so states that differ in it have
        # different futures)
        referenced = tuple(okeys[:ref_orders]) + (min(len(self.ids), ref_orders),)
        rest = tuple(x for x in okeys[ref_orders:] if x is not None)
        lm = e._loan_mgr

        def lkey(lid):
            lo = lm._loans.get(lid)
            if not lo.is_open:
                return None
            return (lo.borrowed_symbol, lo.borrowed_amount, self.t - self.loan_meta[lid]["t"])
        explicit = [lkey(lid) for lid in self.lids]
        lref = tuple(explicit[:ref_loans]) + (len(self.lids) >= ref_loans,)
        others = [lkey(lo.id) for lo in lm._loans.get_all() if lo.id not in self.lids[:ref_loans]]
        lrest = tuple(sorted((x for x in others if x is not None), key=repr))
        cont = om._orders
        stale = sum(1 for it in cont._open_items if not it.is_open)
        # the phase a REBUILT world (no snapshots) has after the same history; in a search no history is long enough to reach
        # a re-index (every 50 walks) - re-indexing is explored by the lasso runs
        reindex = (cont._reindex_counter - self.harness_traversals, stale)
        closes = tuple(sorted(self.close.items()))
        # (whether the last action was a bar decides if a same-timestamp bar may follow)
        return (bal, referenced, rest, lref, lrest, closes, reindex, self.t > 0, self.last_kind in ("bar", "bar="))


def info_key(o):
    return (o.id, o.is_open, o.operation, o.amount, o.amount_filled, o.amount_remaining, o.quote_amount_filled,
            tuple(sorted(o.fees.items())), o.limit_price, o.stop_price, tuple(sorted(o.loan_ids)))


def loan_key(lo):
    return (lo.id, lo.is_open, lo.borrowed_symbol, lo.borrowed_amount, tuple(sorted(lo.outstanding_interest.items())),
            tuple(sorted(lo.paid_interest.items())))


def build(cfg, hist):
    w = World(cfg)
    for a in hist:
        w.apply(a)
    return w


# ---- alphabets ------------------------------------------------------------------------------------------------------
def alphabet(cfg, level="std"):
    """Action alphabet of a configuration, simplest first. level: 'small' < 'std' < 'full'."""
    u = unit(cfg)
    npairs = cfg.get("pairs", 1)
    lend = bool(cfg.get("lend"))
    if level == "lend":
        return alphabet_lend(cfg)
    if level == "liq":
        return alphabet_liq(cfg)
    if level == "pairs2":
        return alphabet_pairs2(cfg)
    if level == "cross":
        return alphabet_cross(cfg)
    if level == "ar":
        return alphabet_ar(cfg)
    if level == "rb":
        return alphabet_rb(cfg)
    if level == "reidx":
        return alphabet_reidx(cfg)
    if level == "ar4":
        return alphabet_ar4(cfg)
    if level == "cross2":
        return alphabet_cross2(cfg)
    shapes = {"small": (0, 1, 5), "std": (0, 1, 2, 3, 4, 5, 6, 9), "full": tuple(range(len(SHAPES)))}[level]
    A = [("bar", pi, si) for pi in range(npairs) for si in shapes]
    amts = {"small": (1, 3), "std": (1, 3), "full": (1, 2, 3)}[level]
    flags = [(False, False)]
    if lend:
        flags += [(True, True), (True, False)] if level != "full" else [(True, True), (True, False), (False, True)]
    for pi in range(npairs):
        for side in ("B", "S"):
            for n in amts:
                amt = str(n * u)
                for ab, ar in flags:
                    A.append(("ord", "mkt", side, pi, amt, None, None, ab, ar))
                    A.append(("ord", "lim", side, pi, amt, "100", None, ab, ar))
                    if level != "small" or n == 1:
                        A.append(("ord", "stp", side, pi, amt, None, "100", ab, ar))
                        A.append(("ord", "sl", side, pi, amt, "90" if side == "S" else "110", "100", ab, ar))
                    if level == "full" and n == 1:
                        A.append(("ord", "lim", side, pi, amt, "90" if side == "B" else "110", None, ab, ar))
                        A.append(("ord", "sl", side, pi, amt, "110" if side == "S" else "90", "100", ab, ar))
    A += [("cancel", 0), ("cancel", 1), ("cancel", -1)]
    if lend:
        A += [("loan", "USD", "100"), ("loan", "BTC", str(1 * u if cfg["bp"] == 0 else 10 * u)), ("repay", 0), ("repay", 1),
              ("repay", -1)]
        if level == "full":
            A += [("loan", "USD", "1000"), ("loan", "BTC", str(3 * u))]
    else:
        # without a lending strategy every borrow request fails - explicit or through an auto-borrow order that is short of
        # funds (large amount) - while an auto-borrow order that needs no loan is an ordinary order
        A += [("loan", "USD", "100"), ("repay", -1),
              ("ord", "mkt", "S", 0, str(1000 * u), None, None, True, False),
              ("ord", "lim", "B", 0, str(u), "100", None, True, True)]
    if level != "small":
        # invalid requests
        A += [("ord", "mkt", "B", 0, "0", None, None, False, False),
              ("ord", "lim", "S", 0, str(u / 2), "100", None, False, False),
              ("ord", "lim", "B", 0, str(u), "-1", None, False, False),
              ("ord", "stp", "B", 0, str(u), None, "100.001" if cfg["qp"] < 3 else "100.000000001", False, False)]
        if lend:
            A += [("loan", "USD", "0"), ("loan", "BTC", "-1")]
    return A


def alphabet_lend(cfg):
    """Lending-focused alphabet: price moves, loans of several sizes, auto-borrow / auto-repay market orders."""
    u = unit(cfg)
    npairs = cfg.get("pairs", 1)
    A = [("bar", pi, si) for pi in range(npairs) for si in (7, 5, 6)]
    # another bar with the SAME timestamp and another price (e.g. feeds of two resolutions): whatever was computed from the
    # first one - interest in another symbol, margin levels - is stale within the very same instant
    A.append(("bar=", 0, 5))
    for side in ("B", "S"):
        for n in (1, 3):
            for ab, ar in ((False, False), (True, False), (True, True), (False, True)):
                A.append(("ord", "mkt", side, 0, str(n * u), None, None, ab, ar))
    A += [("loan", "USD", "100"), ("loan", "USD", "1000"), ("loan", "BTC", str(1 * u if cfg["bp"] == 0 else 10 * u)),
          ("loan", "BTC", str(3 * u if cfg["bp"] == 0 else 30 * u)), ("repay", 0), ("repay", 1), ("cancel", 0),
          # amounts that are not multiples of the symbol precision (e.g. 1000 / price passed straight to create_loan)
          ("loan", "USD", "33.3333333333"), ("loan", "BTC", str((u / 3).quantize(D(1).scaleb(-(cfg["bp"] + 6)))))]
    if npairs >= 2:
        # the second pair may not have traded yet when its base symbol is borrowed (pairs with distinct timestamps)
        A += [("loan", "ETH", str(u)), ("loan", "ETH", str(5 * u)),
              ("ord", "mkt", "S", 1, str(3 * u), None, None, True, False), ("ord", "lim", "S", 1, str(u), "100", None, True, True)]
    return A


def alphabet_liq(cfg):
    """Liquidity-focused alphabet: thin bars (1, 2.5, 2.75, 10 units of liquidity at 25%), competing orders, cancels."""
    u = unit(cfg) * cfg.get("amt_scale", 1)  # amt_scale: amounts that are also valid on a coarser base grid
    A = [("bar", 0, si) for si in cfg.get("liq_shapes", (10, 0, 9, 1, 4, 11, 12, 13))]
    A.append(("bar=", 0, 0))  # a second bar with the same timestamp
    for side in ("B", "S"):
        for n in (1, 2, 3):
            A.append(("ord", "lim", side, 0, str(n * u), "100", None, False, False))
            A.append(("ord", "mkt", side, 0, str(n * u), None, None, False, False))
        A.append(("ord", "lim", side, 0, str(5 * u), "100", None, False, False))  # fills in up to five pieces
        A.append(("ord", "stp", side, 0, str(2 * u), None, "100", False, False))
        A.append(("ord", "sl", side, 0, str(3 * u), "100", "100", False, False))
    A += [("cancel", 0), ("cancel", 1), ("cancel", 2)]
    return A


def alphabet_pairs2(cfg):
    """Two pairs: bars of either pair, resting and marketable limit orders on either pair, one cancel."""
    assert cfg.get("pairs", 1) == 2
    u = unit(cfg)
    A = [("bar", 0, 0), ("bar", 1, 0), ("bar", 0, 1), ("bar", 1, 1)]
    for pi in (0, 1):
        A.append(("ord", "lim", "B", pi, str(u), "90", None, False, False))   # rests: flat bars never reach 90
        A.append(("ord", "lim", "B", pi, str(u), "100", None, False, False))
        A.append(("ord", "lim", "S", pi, str(u), "100", None, False, False))
        A.append(("ord", "mkt", "B", pi, str(u), None, None, False, False))
    A.append(("cancel", 0))
    return A


def alphabet_cross(cfg):
    """Three pairs, one of them a cross pair (ETH/BTC) whose quote symbol is priced by another pair that may not have
    traded yet (distinct timestamps): orders on the cross pair whose minimum fee exceeds the proceeds need two loans."""
    assert cfg.get("pairs", 1) == 3
    u = unit(cfg)
    A = [("bar", 1, 0), ("bar", 2, 0), ("bar", 0, 0), ("bar", 2, 5)]
    for kind, lim in (("lim", "100"), ("mkt", None)):
        for side in ("S", "B"):
            for ab, ar in ((True, False), (False, False), (True, True)):
                A.append(("ord", kind, side, 2, str(u), lim, None, ab, ar))
    A += [("loan", "ETH", str(u)), ("loan", "BTC", str(u)), ("loan", "USD", "100"), ("cancel", 0), ("repay", 0)]
    return A


def alphabet_ar(cfg):
    """Tiny alphabet for deep histories around auto-borrow / auto-repay orders that fill partially, price spikes that push
    the margin level under 100%, several loans in one symbol, cancels and repayments."""
    u = unit(cfg)
    A = [("bar", 0, 0), ("bar", 0, 14), ("bar", 0, 15), ("loan", "USD", "100"),
         ("ord", "lim", "S", 0, str(3 * u), "100", None, True, True), ("ord", "lim", "B", 0, str(3 * u), "100", None, True, True),
         ("cancel", 0), ("repay", 0)]
    return A


def alphabet_rb(cfg):
    """Roll-back alphabet: an auto-borrow sell whose minimum fee exceeds its proceeds is short in TWO symbols (two loans);
    loans that bring the margin level to exactly 100% so that the second loan is refused and the first must be undone."""
    u = unit(cfg)
    A = [("bar", 0, 0), ("loan", "USD", "198"), ("loan", "USD", "100"),
         ("ord", "lim", "S", 0, str(u), "100", None, True, False), ("ord", "mkt", "S", 0, str(u), None, None, True, False),
         ("ord", "lim", "B", 0, str(u), "100", None, False, False), ("ord", "lim", "S", 0, str(u), "100", None, True, True),
         ("cancel", 0), ("repay", 0), ("bar", 0, 5)]
    return A


def alphabet_reidx(cfg):
    """Tiny alphabet for 3-cycles run for many repetitions: orders that close inside a bar's walk of the open-order list
    next to orders that stay open (resting limit) or must close in the same walk (market orders: fill or kill)."""
    u = unit(cfg)
    return [("bar", 0, 0), ("bar", 0, 1),
            ("ord", "mkt", "B", 0, str(u), None, None, False, False), ("ord", "mkt", "S", 0, str(u), None, None, False, False),
            ("ord", "lim", "B", 0, str(u), "100", None, False, False), ("ord", "lim", "B", 0, str(u), "90", None, False, False),
            ("cancel", 0)]


def alphabet_ar4(cfg):
    """Auto-repay on every order type and side (no borrowing by the orders themselves), loans in both symbols, a cancel."""
    u = unit(cfg)
    A = [("bar", 0, 1), ("bar", 0, 0), ("loan", "BTC", str(u)), ("loan", "USD", "100")]
    for side in ("B", "S"):
        A.append(("ord", "mkt", side, 0, str(u), None, None, False, True))
        A.append(("ord", "lim", side, 0, str(u), "100", None, False, True))
        A.append(("ord", "stp", side, 0, str(u), None, "100", False, True))
        A.append(("ord", "sl", side, 0, str(u), "90" if side == "S" else "110", "100", False, True))
    A += [("cancel", 0), ("repay", 0)]
    return A


def alphabet_cross2(cfg):
    """Three pairs with DIFFERENT precisions and different quote symbols, no lending: orders on BTC/USD and on the cross pair
    ETH/BTC accepted one after the other (whatever was looked up for one pair must not be used for the other)."""
    assert cfg.get("pairs", 1) == 3
    u = unit(cfg)
    A = [("bar", 0, 0), ("bar", 2, 0), ("bar", 1, 0)]
    for pi in (0, 2):
        A.append(("ord", "lim", "B", pi, str(u), "100", None, False, False))
        A.append(("ord", "lim", "B", pi, str(3 * u), "90", None, False, False))
        A.append(("ord", "mkt", "B", pi, str(u), None, None, False, False))
        A.append(("ord", "lim", "S", pi, str(u), "100", None, False, False))
    A.append(("cancel", 0))
    return A

"""Explicit-state search over operation histories of the real backtesting exchange, plus the public-API (e2e) driver that
keeps the fast synchronous driver honest (DESIGN.md 2.3, 2.4)."""
import collections

import basana as bs

from mc.framework import h64
from worlds import exch
from worlds.exch import PAIRS, SHAPES, T, World, call
from worlds.exch_monitors import MONITORS, Tr, info_tuple, loan_tuple
from worlds.dsp import run_on_vloop
from decimal import Decimal as D


def transition(cfg, hist, a, props, before_cache=None):
    """Replays hist on a fresh exchange, applies a, runs the monitors of props. Returns (world, tr, violations) or None
    when a is not applicable in that state."""
    w = exch.build(cfg, hist)
    if not w.applicable(a):
        return None
    before = before_cache.get("snap") if before_cache is not None else None
    if before is None:
        before = w.snapshot()
        if before_cache is not None:
            before_cache["snap"] = before
    else:
        w.pre_read()  # every world an action is applied to has been looked at (read-only) in its current instant
    nev = len(w.evq)
    raised, placed, new_loans = w.apply(a)
    tr = Tr()
    tr.w, tr.a, tr.raised, tr.placed, tr.new_loans = w, a, raised, placed, new_loans
    tr.before = before
    tr.events = list(w.evq[nev:])
    tr.cfg = cfg
    tr.hist = list(hist)
    try:
        tr.after = w.snapshot()
    except Exception as x:  # noqa: the read-only public API must keep working in every reachable state
        tr.after = before
        return w, tr, [(p, "public-api-raises", f"get_balances/get_orders/get_loans raised {type(x).__name__}: {x} after "
                        f"{a}") for p in props]
    bad = []
    for p in props:
        for mon in MONITORS[p]:
            for clause, detail in mon(tr):
                bad.append((p, clause, detail))
    return w, tr, bad


def bfs(cfg, alpha, depth, props, res, prefix=(), on_violation=None, max_states=None, on_state=None):
    """Breadth-first search from the state reached by prefix, to histories of length depth. Monitors run on every
    transition, also on those leading to already-seen states. res: mc.framework.Result."""
    prefix = list(prefix)
    w0 = exch.build(cfg, prefix)
    seen = {w0.key()}
    frontier = [prefix]
    for level in range(len(prefix), depth):
        nxt = []
        for hist in frontier:
            cache = {}
            for a in alpha:
                out = transition(cfg, hist, a, props, cache)
                if out is None:
                    continue
                w, tr, bad = out
                if bad and bad[0][1] == "public-api-raises":
                    if on_violation:
                        on_violation(hist + [a], bad)
                    continue
                res.transitions += 1
                res.executions += 1
                res.outcomes[(a[0], None if tr.raised is None else tr.raised[0])] += 1
                if bad and on_violation:
                    on_violation(hist + [a], bad)
                k = w.key()
                if k not in seen:
                    seen.add(k)
                    res.states.add(h64((cfg_id(cfg), k)))
                    if tr.events or tr.raised or tr.new_loans:
                        res.nontrivial.add(h64((cfg_id(cfg), k)))
                    nxt.append(hist + [a])
                    if on_state:
                        on_state(hist + [a])
                    if max_states and len(seen) >= max_states:
                        res.caps["max_states"] = f"state cap {max_states} hit at depth {level + 1}"
                        return
        frontier = nxt


def cfg_id(cfg):
    return repr(sorted((k, repr(v)) for k, v in cfg.items()))


# ---- observable state, identical for both drivers --------------------------------------------------------------------
def observe(e, results, events):
    """Complete public observable state: balances, every OrderInfo, every LoanInfo, per-action outcomes, event stream."""
    bal = {k: (v.available, v.hold, v.borrowed) for k, v in sorted(call(e.get_balances()).items())
           if v.available or v.hold or v.borrowed}
    orders = [info_tuple(o) for o in call(e.get_orders())]
    loans = [loan_tuple(lo) for lo in call(e.get_loans())]
    evs = [(ev.when, info_tuple(ev.order)) for ev in events]
    return dict(bal=bal, orders=orders, loans=loans, results=list(results), events=evs,
                open=sorted(o.id for o in call(e.get_open_orders())))


def run_sync(cfg, hist):
    w = exch.build(cfg, hist)
    return observe(w.e, w.results, list(w.evq))


def run_e2e(cfg, hist):
    """The same history through the public API only: a real BacktestingDispatcher.run() on the virtual loop, bars come
    from FifoQueueEventSources registered with add_bar_source, the 'strategy' is a bar handler that performs the actions
    following its bar."""
    d = bs.backtesting_dispatcher()
    exch._ids.reset()
    e = exch.make_exchange(cfg, d)
    npairs = cfg.get("pairs", 1)
    # split the history into steps: (bar action, [actions performed while handling that bar])
    steps = []
    for a in hist:
        if a[0] in ("bar", "bar="):
            steps.append((a, []))
        else:
            if not steps:
                raise ValueError("history must start with a bar")
            steps[-1][1].append(a)
    per_pair = [[] for _ in range(npairs)]
    t = 0
    for (bar, acts) in steps:
        kind_, pi, si = bar
        if kind_ == "bar":
            t += 1
        o, h, l, c, v = (D(x) for x in SHAPES[si])
        v = v * exch.unit(cfg)
        per_pair[pi].append(bs.BarEvent(T(t), bs.Bar(T(t - 1), PAIRS[pi], o, h, l, c, v)))
    # a scripted World-like executor that uses the same action interpreter as the sync driver, on this exchange
    w = World.__new__(World)
    w.cfg, w.d, w.e, w.npairs = cfg, d, e, npairs
    w.t = 0
    w.ids, w.meta, w.lids, w.loan_meta, w.close, w.bars, w.bars_since = [], [], [], {}, {}, [], []
    w.cancelled, w.results = set(), []
    w.last_kind = None
    events = []
    handled = []

    async def act(k):
        for a in steps[k][1]:
            w.pre_read()  # the same read-only look at the account the synchronous driver takes before every action
            w.apply(a)

    async def on_bar(ev):
        # bars are handled in history order (several may share a timestamp)
        k = len(handled)
        handled.append(k + 1)
        w.t = int((ev.when - T(0)) / exch.STEP)
        w.mid = False
        # results are recorded in history order: the bar itself, then the actions
        w.results.append(None)
        if cfg.get("mid_actions") and steps[k][1]:
            # the actions of this step are made by a job scheduled half a step later (public API: dispatcher.schedule)
            async def job(k=k):
                w.mid = True
                await act(k)
            d.schedule(ev.when + exch.STEP / 2, job)
        else:
            await act(k)

    async def on_order(ev):
        events.append(ev)

    # a job scheduled for exactly each bar's time looks at the account (jobs run before the events of their time): the
    # public-API counterpart of the reads the synchronous driver makes between setting the clock and delivering the bar
    async def reader():
        await e.get_balances()
        await e.get_loans()
    for when in sorted({ev.when for lst in per_pair for ev in lst}):
        d.schedule(when, reader)
    for pi in range(npairs):
        e.subscribe_to_bar_events(PAIRS[pi], on_bar)
    e.subscribe_to_order_events(on_order)
    for pi in range(npairs):
        e.add_bar_source(bs.FifoQueueEventSource(events=per_pair[pi]))
    out, exc, loop = run_on_vloop(lambda loop: d.run(stop_signals=[]), patch_clock=False)
    if out != "returned":
        raise RuntimeError(f"e2e driver: dispatcher run ended with {out} {exc!r}")
    # order events produced by a job that ran in the dispatcher's final drain (after the last bar) were pushed but are never
    # delivered: the run ends with the drain. They are taken from the source's queue so that both drivers are compared on
    # what the exchange PRODUCED.
    om = e._order_mgr
    leftover = list(getattr(getattr(om, "_order_updates", None), "_queue", []) or [])
    obs = observe(e, w.results, events + leftover)
    obs["handled"] = handled
    obs["nsteps"] = len(steps)
    return obs


def conformance(cfg, hist):
    """None if both drivers agree on the complete observable state of hist, else a description of the difference."""
    a = run_sync(cfg, hist)
    b = run_e2e(cfg, hist)
    # bars whose processing failed inside the exchange's own handler: the sync driver sees the exception, under the
    # dispatcher the exception is logged and the strategy never gets that bar (so the rest of that step does not run)
    bar_no = 0
    failed = []
    for act, r in zip(hist, a["results"]):
        if act[0] in ("bar", "bar="):
            bar_no += 1
            if r is not None:
                failed.append(bar_no)
    expected_handled = [t for t in range(1, b["nsteps"] + 1) if t not in failed]
    if b["handled"] != expected_handled:
        return f"e2e strategy handled bars {b['handled']}, expected {expected_handled}"
    if failed:
        return None
    for k in ("bal", "orders", "loans", "results", "open"):
        if a[k] != b[k]:
            return f"{k}: sync={a[k]} e2e={b[k]}"

    def per_order(evs):
        m = collections.defaultdict(list)
        for when, it in evs:
            m[it[0]].append((when, it))
        return dict(m)
    if per_order(a["events"]) != per_order(b["events"]):
        return f"events: sync={a['events']} e2e={b['events']}"
    return None


def lasso(cfg, prefix, cycle, reps, props, res, on_violation=None, offset=0):
    """Runs prefix . cycle^reps on ONE live exchange with the monitors on every step (long histories: hundreds of
    orders, many re-indexings of the open-order list). offset: number of get_open_orders() calls a strategy makes before
    anything else - it shifts WHICH traversal of the open-order list is the one that re-indexes it."""
    w = World(cfg)
    for _ in range(offset):
        call(w.e.get_open_orders())
    hist = []
    before = None
    for a in list(prefix) + list(cycle) * reps:
        if not w.applicable(a):
            res.extra["lasso_runs_cut_short_by_an_inapplicable_action"] += 1  # said in the evidence, not silently dropped
            return
        if before is None:
            before = w.snapshot()
        nev = len(w.evq)
        raised, placed, new_loans = w.apply(a)
        hist.append(a)
        tr = Tr()
        tr.w, tr.a, tr.raised, tr.placed, tr.new_loans = w, a, raised, placed, new_loans
        tr.before, tr.after = before, w.snapshot()
        tr.events = list(w.evq[nev:])
        tr.cfg = cfg
        tr.hist = None  # a live run: the state before this step cannot be rebuilt cheaply
        res.transitions += 1
        bad = []
        for p in props:
            for mon in MONITORS[p]:
                for clause, detail in mon(tr):
                    bad.append((p, clause, detail))
        if bad:
            if on_violation:
                on_violation(list(hist), bad)
            return
        before = tr.after
    res.executions += 1
    res.states.add(h64((cfg_id(cfg), w.key())))


def normalized(obs):
    """Observation with order / loan ids replaced by their creation index (ids are random in the library)."""
    omap = {o[0]: "order#%d" % i for i, o in enumerate(obs["orders"])}
    lmap = {lo[0]: "loan#%d" % i for i, lo in enumerate(obs["loans"])}

    def fix_order(o):
        return (omap.get(o[0], o[0]),) + tuple(o[1:-1]) + (tuple(sorted(lmap.get(x, x) for x in o[-1])),)
    return dict(bal=obs["bal"], orders=[fix_order(o) for o in obs["orders"]],
                loans=[(lmap.get(lo[0], lo[0]),) + tuple(lo[1:]) for lo in obs["loans"]], results=obs["results"],
                events=[(w, fix_order(o)) for w, o in obs["events"]], open=sorted(omap.get(x, x) for x in obs["open"]))
